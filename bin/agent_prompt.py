#!/usr/bin/env python3
"""agent_prompt.py <ID> <letter> <theme-key> : print the prompt given to an independent sub-agent that writes a seeded,
property-breaking change. The agent sees the property text, a scratch worktree and one-line summaries of the changes that
already exist for the property (so that it writes a different one) - nothing else from /verif."""
import json, sys, glob, os
pid, letter, theme = sys.argv[1], sys.argv[2], sys.argv[3]
props = {json.loads(l)['id']: json.loads(l) for l in open('/verif/properties.jsonl')}
p = props[pid]
THEMES = {
 'long': "a slip that only shows on LONGER or RARER inputs than a short exhaustive enumeration would reach: e.g. words of six or more characters, a composition with three or more conjuncts, a specific dictionary / auto-correct / suffix / emoji table entry or a class of entries (entries with a particular character, length, or shape), the ninth-candidate cap, a second or third match where the first behaves, byte-index versus character-index arithmetic that only differs for particular code points",
 'seq': "a slip that needs a MULTI-STEP history to show: state left behind by an earlier word, commit, backspace, ctrl-backspace, finish or update-engine that changes what a LATER, innocent-looking step returns; at least three API calls apart; ordinary single-word use from a new context must look right",
 'pair': "TWO cooperating edits at different sites (different functions, preferably different files) that each look harmless, or even like a clean-up, on their own, and only together break the property, under a particular option combination or input class",
 'free': "a slip of a KIND that is not yet in the list of existing changes below (read the list first): pick the code path, data shape or call pattern that none of them touches - e.g. the interaction of two features that are each covered alone, an assumption about data files that holds for almost every entry, arithmetic on lengths or indices of mixed ASCII / Bengali / emoji text, the behaviour at exactly a boundary (first key, ninth candidate, empty part, last table entry)",
 'opt': "a slip in how OPTIONS reach the code: an option read at the wrong moment (creation vs. each call), combined wrongly with another option, honoured for one method (phonetic / fixed) or one code path (list vs. single string, first key vs. later keys, after a backspace) only; the default configuration must look right",
}
existing = []
for d in sorted(glob.glob(f'/verif/seeded/{pid}-*')):
    try:
        m = json.load(open(d + '/meta.json')); existing.append('- ' + (m.get('summary') or '')[:260].replace('\n', ' '))
    except Exception: pass
wt = f'/tmp/seed5/wt-{pid}-{letter}'
out = f'/tmp/seed5/{pid}-{letter}'
print(f"""You are helping to evaluate a verification harness for the Rust library OpenBangla/riti (a Bengali input-method engine:
phonetic "Avro" typing and fixed keyboard layouts, exposed through a C ABI). Your job is to write ONE realistic,
subtle source change to riti that BREAKS the semantic property below while the crate still compiles and all of its
43 existing unit tests still pass - the kind of slip a maintainer could make in a refactoring or a feature patch - and to
demonstrate the breakage with a new unit test.

Work ONLY inside your own scratch git worktree. Create it first:
    git -C /repo worktree add --detach {wt} HEAD
    cd {wt}
Never edit /repo itself, never look into /verif (it is off limits for this exercise), never commit. Build and test offline with a private
target directory:  CARGO_NET_OFFLINE=true CARGO_TARGET_DIR={wt}/target cargo test --offline
(43 tests pass on the untouched tree). There is no network.

THE PROPERTY ({pid}: {p['title']})
Statement: {p['statement']}
Quantifier: {json.dumps(p['quantifier'], ensure_ascii=False)}
Why tests cannot settle it: {p['why_tests_cant']}
Code anchors: {json.dumps(p['anchors'], ensure_ascii=False)}

WHAT KIND OF CHANGE IS WANTED
{THEMES[theme]}.
It must NOT be exposed at once by ordinary use (typing a common short word with default options from a new context must behave
as before). It must be a change to library behaviour inside the contract of the property (do not rely on calling
update_engine in the middle of a composition, on out-of-range commit indices or on other out-of-contract calls). Do not simply
revert one of the commits whose message starts with "fix:" in `git log` (re-opening a repaired defect does not count), and do
not touch tests, data files or Cargo files in the source change. Keep it small (typically 1-15 changed lines). Do not add comments
that give the change away.

Changes that already exist for this property (write something DIFFERENT, at a different site if you can):
{chr(10).join(existing) if existing else '- none'}

DELIVERABLES - write exactly these three files into {out}/ (create the directory):
1. patch.diff  - `git diff` of the source change ONLY (files under src/, no test code). It must apply to a clean checkout of HEAD with `git apply`.
2. demo.diff   - `git diff` of a NEW unit test ONLY, added inside an existing `#[cfg(test)] mod tests` of a file under src/ (its name must
                 start with `seeded_demo_`), relative to a clean checkout of HEAD. Alone (without patch.diff) all 44 tests pass; with patch.diff applied as
                 well, exactly this one test fails (43 pass, 1 fails). If the test needs user files use a temporary directory of its own and
                 do not depend on the developer's home directory. demo.diff and patch.diff must apply together in either order (if both touch the same file keep the hunks apart).
3. meta.json   - {{"property": "{pid}", "summary": "<what was changed, 1-3 sentences>", "needs": "<what exactly is needed for the breakage to show: options, history, input>",
                 "files_changed": ["src/..."], "demo_test_name": "<module path>::seeded_demo_..."}}

Before you finish, verify all three states yourself in the worktree: (a) patch only -> 43 passed; (b) demo only -> 44 passed; (c) both -> 43 passed, 1 failed
(the demo). Produce the diffs with `git diff` from those states (e.g. apply the patch, `git diff > patch.diff`, `git stash`/checkout, etc.) and re-check that
both apply to a clean checkout. When done, remove your worktree and its build output:
    git -C /repo worktree remove --force {wt}
Report in your final message: the summary, what is needed to manifest, and the three test result lines.""")
