#!/usr/bin/env python3
"""Writes /verif/MANIFEST.json from the table below (single source of truth for what is claimed)."""
import json, os, subprocess
V = os.path.dirname(os.path.dirname(os.path.abspath(__file__)))
hooks = subprocess.run(['git','-C','/repo','log','--format=%H','--grep=^verif hooks'],capture_output=True,text=True).stdout.split()

# id -> (category, technique, level text, level note, design section)
CHECKS = {
 'C04': ('exploration', 'complete enumeration of the finite key space on the real context',
         'Complete enumeration (exhaustive: true) of 65 536 key codes x 12 modifier bytes x number-pad on/off x 3 layouts x {idle, after a consonant} x {suggestions off, on}; every press compared with the layout JSON through the harness\'s own key table. The space in the statement is finite, so this decides it for the supplied layouts.',
         'Trusts serde_json for reading the layout, the harness key table transcribed from riti.h, and the state-restore hook.', '4/C04'),
 'C12': ('model_checking', 'explicit-state BFS over the real FixedMethod vs a reference step function',
         'Explicit-state BFS over the real fixed method (state = full snapshot, transition = real key/backspace call), closed at composition length 4 (quick) / 5 (thorough) over a 25-symbol alphabet with one representative per character class, for all 16 helper settings; on every transition the returned text is compared with a reference step() written from the statement.',
         'Bounded by the alphabet (one representative per class) and the length bound; the reference step() is the harness\'s reading of the statement; inputs for which the statement defines no result are counted as unspecified.', '4/C12'),
}
CHECKS.update({
 'C13': ('model_checking', 'explicit-state BFS over the real FixedMethod, reph key judged in every state',
         'Explicit-state BFS over the real fixed method over a 17-symbol alphabet (reph key included), closed at composition length 5 (quick) / 6 (thorough), under 16 settings of the other helpers with old reph on and again off. The reph key is judged in every state: conservation (single insertion of the reph) everywhere, placement against a syllable-grammar reference on every well-formed text, plain append with the option off.',
         'Bounded by alphabet and length; the grammar and placement rule are the reading of the statement by the harness; texts outside the grammar get the conservation clause only.', '4/C13'),
 'C14': ('model_checking', 'exhaustive enumeration of syllable words typed into paired real contexts (differential)',
         'Every word of <= 2 syllable units over a 1 515-unit set (conjuncts via hasanta / ro-fola / zo-fola, all sign kinds incl. two-part signs, chandrabindu, reph) and, in the thorough tier, <= 3 units over a reduced set, typed in typewriter order with the option on and in Unicode order with it off under all 16 settings of the other helpers; texts must be equal. Every waiting-sign point is checked for not-shown / ongoing / discarded-by-one-backspace.',
         'Differential oracle (no expected value): a bug common to both orders is invisible here (C12 covers the Unicode-order side). Bounded by the unit set and word length.', '4/C14'),
})
CHECKS.update({
 'C01': ('model_checking', 'explicit-state / history BFS over the real context under catch_unwind',
         'Bounded exhaustive exploration of real API call sequences with the oracle "returns normally, result fully readable, < 2 s": fixed-method state graph over a 40-event class alphabet under all 2^10 option combinations (length 2/3) and the 64 composition-option combinations (length 3/4); fixed history graph with suggestions on (34 configurations); all 111 published keys x 4 modifiers x 3 selection bytes from 13/12 representative states under 16 phonetic and 544 fixed configurations; phonetic history graph with commit of every index, restart, update-engine and the text-less keypad keys to depth 4/5 (18 configurations) and again from 386 learned states; long-word families to 100/300 characters.',
         'Bounded by alphabets (one key per class), depths and the representative states of part (b); a panic caught at the Rust API is taken as an abort at the C ABI; aborts that bypass unwinding (stack overflow, OOM) end the run as a machinery error.', '4/C01'),
})
NOT_YET = {}
props = [json.loads(l) for l in open(os.path.join(V,'properties.jsonl'))]
checks = []
na = []
for p in props:
    i = p['id']
    if i in CHECKS:
        cat, tech, text, note, ref = CHECKS[i]
        checks.append({
            'property_id': i,
            'quick_cmd': f'bin/check {i} quick',
            'thorough_cmd': f'bin/check {i} thorough',
            'evidence_file': f'/verif/evidence/{i}.json',
            'replay_cmd_template': 'bin/check replay {path}',
            'engine': 'ritiffi' if i == 'C19' else 'ritimc',
            'level_claimed': {'category': cat, 'text': text, 'design_ref': 'DESIGN.md §' + ref},
            'level_note': note,
            'technique': tech,
        })
    else:
        na.append({'property_id': i, 'reason': NOT_YET.get(i, 'check not built yet in this revision of /verif (planned in DESIGN.md §4); nothing is claimed for it')})
m = {
 'version': 1,
 'setup_cmd': 'bin/setup',
 'hooks': {
   'guard': 'cargo feature `verif` of the riti crate',
   'enable': 'the harness crates depend on riti = { path = "/repo", features = ["verif"] }; no RUSTFLAGS',
   'baseline_off_cmd': 'cd /repo && cargo test --workspace --no-fail-fast --offline',
   'source_commits': hooks,
   'add_only': True,
 },
 'engines': [
   {'name': 'ritimc', 'path': '/verif/mc', 'serves_properties': [c['property_id'] for c in checks if c['engine']=='ritimc'],
    'kind_free_text': 'hand-rolled bounded exhaustive explorer (explicit-state BFS / complete enumeration) that calls the real RitiContext; oracles are small reference models and independent crates'},
 ],
 'checks': checks,
 'not_applicable': na,
 'notes': 'Every check is `bin/check <ID> <tier>`: it rebuilds the harness against /repo\'s working tree (feature verif), explores, writes evidence/<ID>.json, prints KNOWN-FINDING lines for entries of KNOWN_FINDINGS.json and VIOLATION lines otherwise. Exit 2 = machinery error, never a verdict. No check makes a random choice; VERIF_SEED is recorded only.',
}
if any(c['engine']=='ritiffi' for c in checks):
    m['engines'].append({'name':'ritiffi','path':'/verif/ffi','serves_properties':['C19'],'kind_free_text':'C-ABI call-sequence explorer built with nightly + AddressSanitizer/LeakSanitizer'})
json.dump(m, open(os.path.join(V,'MANIFEST.json'),'w'), indent=1, ensure_ascii=False)
print('claimed', [c['property_id'] for c in checks], 'not claimed', len(na))
