#!/usr/bin/env python3
"""Writes /verif/MANIFEST.json from the table below (single source of truth for what is claimed)."""
import json, os, subprocess
V = os.path.dirname(os.path.dirname(os.path.abspath(__file__)))
hooks = subprocess.run(['git','-C','/repo','log','--format=%H','--grep=^verif hooks'],capture_output=True,text=True).stdout.split()

# what is claimed, per property: bin/checks.json  {id: {category, technique, text, note, design_ref}}
CHECKS = {k: (v['category'], v['technique'], v['text'], v['note'], v['design_ref']) for k, v in json.load(open(os.path.join(V, 'bin', 'checks.json'))).items()}
NOT_YET = {}
props = [json.loads(l) for l in open(os.path.join(V,'properties.jsonl'))]
checks = []
na = []
for p in props:
    i = p['id']
    if i in CHECKS:
        cat, tech, text, note, ref = CHECKS[i]
        checks.append({
            'property_id': i,
            'quick_cmd': f'bin/check {i} quick',
            'thorough_cmd': f'bin/check {i} thorough',
            'evidence_file': f'/verif/evidence/{i}.json',
            'replay_cmd_template': 'bin/check replay {path}',
            'engine': 'ritiffi' if i == 'C19' else 'ritimc',
            'level_claimed': {'category': cat, 'text': text, 'design_ref': 'DESIGN.md §' + ref},
            'level_note': note,
            'technique': tech,
        })
    else:
        na.append({'property_id': i, 'reason': NOT_YET.get(i, 'check not built yet in this revision of /verif (planned in DESIGN.md §4); nothing is claimed for it')})
m = {
 'version': 1,
 'setup_cmd': 'bin/setup',
 'hooks': {
   'guard': 'cargo feature `verif` of the riti crate',
   'enable': 'the harness crates depend on riti = { path = "/repo", features = ["verif"] }; no RUSTFLAGS',
   'baseline_off_cmd': 'cd /repo && cargo test --workspace --no-fail-fast --offline',
   'source_commits': hooks,
   'add_only': True,
 },
 'engines': [
   {'name': 'ritimc', 'path': '/verif/mc', 'serves_properties': [c['property_id'] for c in checks if c['engine']=='ritimc'],
    'kind_free_text': 'hand-rolled bounded exhaustive explorer (explicit-state BFS / complete enumeration) that calls the real RitiContext; oracles are small reference models and independent crates'},
 ],
 'checks': checks,
 'not_applicable': na,
 'notes': 'Every check is `bin/check <ID> <tier>`: it rebuilds the harness against /repo\'s working tree (feature verif), explores, writes evidence/<ID>.json, prints KNOWN-FINDING lines for entries of KNOWN_FINDINGS.json and VIOLATION lines otherwise. Exit 2 = machinery error, never a verdict. No check makes a random choice; VERIF_SEED is recorded only.',
}
if any(c['engine']=='ritiffi' for c in checks):
    m['engines'].append({'name':'ritiffi','path':'/verif/ffi','serves_properties':['C19'],'kind_free_text':'C-ABI call-sequence explorer built with nightly + AddressSanitizer/LeakSanitizer'})
json.dump(m, open(os.path.join(V,'MANIFEST.json'),'w'), indent=1, ensure_ascii=False)
print('claimed', [c['property_id'] for c in checks], 'not claimed', len(na))
