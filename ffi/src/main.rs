//! ritiffi — exhaustive explorer of call sequences over the exported C interface of riti,
//! built with AddressSanitizer (nightly). The driver owns a handle table, so only valid
//! handles and in-range indices are ever issued — including read-outs of suggestions after
//! the context moved on or was freed, frees in every order, the config freed before the
//! context. Oracles:
//!   * AddressSanitizer: no invalid access, no double free (a report aborts the shard; the
//!     journalled sequence is attributed by the parent);
//!   * every returned C string is NUL-terminated valid UTF-8 and equals the Rust accessor on the
//!     same `Suggestion`; a suggestion read later (after more events / after the context was
//!     freed) still yields exactly what it yielded when it was returned;
//!   * a counting allocator: after the driver has freed every handle the number of live heap
//!     blocks is back to where it was before the sequence (a leak is attributed to one sequence;
//!     confirmed by running the sequence a second time); LeakSanitizer at process exit as a net.
//!
//! usage: ritiffi run <quick|thorough>        (parent: spawns shards, collects verdict)
//!        ritiffi shard <depth> <k> <n> <dir> (child)
//!        ritiffi replay <file>

#[allow(dead_code)]
#[path = "../../mc/src/keys.rs"]
mod keys;
use riti::config::Config;
use riti::context::RitiContext;
use riti::suggestion::Suggestion;
use std::alloc::{GlobalAlloc, Layout, System};
use std::ffi::{CStr, CString};
use std::io::Write;
use std::os::raw::c_char;
use std::sync::atomic::{AtomicI64, AtomicU64, Ordering};

extern "C" {
    fn riti_context_new_with_config(ptr: *const Config) -> *mut RitiContext;
    fn riti_context_free(ptr: *mut RitiContext);
    fn riti_get_suggestion_for_key(ptr: *mut RitiContext, key: u16, modifier: u8, selection: u8) -> *mut Suggestion;
    fn riti_context_candidate_committed(ptr: *mut RitiContext, index: usize);
    fn riti_context_update_engine(ptr: *mut RitiContext, config: *const Config);
    fn riti_context_ongoing_input_session(ptr: *mut RitiContext) -> bool;
    fn riti_context_finish_input_session(ptr: *mut RitiContext);
    fn riti_context_backspace_event(ptr: *mut RitiContext, ctrl: bool) -> *mut Suggestion;
    fn riti_suggestion_free(ptr: *mut Suggestion);
    fn riti_suggestion_get_suggestion(ptr: *const Suggestion, index: usize) -> *mut c_char;
    fn riti_suggestion_get_lonely_suggestion(ptr: *const Suggestion) -> *mut c_char;
    fn riti_suggestion_get_auxiliary_text(ptr: *const Suggestion) -> *mut c_char;
    fn riti_suggestion_get_pre_edit_text(ptr: *const Suggestion, index: usize) -> *mut c_char;
    fn riti_string_free(ptr: *mut c_char);
    fn riti_suggestion_previously_selected_index(ptr: *const Suggestion) -> usize;
    fn riti_suggestion_get_length(ptr: *const Suggestion) -> usize;
    fn riti_suggestion_is_lonely(ptr: *const Suggestion) -> bool;
    fn riti_suggestion_is_empty(ptr: *const Suggestion) -> bool;
    fn riti_config_new() -> *mut Config;
    fn riti_config_free(ptr: *mut Config);
    fn riti_config_set_layout_file(ptr: *mut Config, path: *const c_char) -> bool;
    fn riti_config_set_database_dir(ptr: *mut Config, path: *const c_char) -> bool;
    fn riti_config_set_suggestion_include_english(ptr: *mut Config, option: bool);
    fn riti_config_set_phonetic_suggestion(ptr: *mut Config, option: bool);
    fn riti_config_set_fixed_suggestion(ptr: *mut Config, option: bool);
    fn riti_config_set_fixed_auto_vowel(ptr: *mut Config, option: bool);
    fn riti_config_set_fixed_auto_chandra(ptr: *mut Config, option: bool);
    fn riti_config_set_fixed_traditional_kar(ptr: *mut Config, option: bool);
    fn riti_config_set_fixed_old_reph(ptr: *mut Config, option: bool);
    fn riti_config_set_fixed_numpad(ptr: *mut Config, option: bool);
    fn riti_config_set_fixed_old_kar_order(ptr: *mut Config, option: bool);
    fn riti_config_set_ansi_encoding(ptr: *mut Config, option: bool);
    fn riti_config_set_smart_quote(ptr: *mut Config, option: bool);
}

// ---------- counting allocator ----------
struct Counting;
static LIVE_BLOCKS: AtomicI64 = AtomicI64::new(0);
static LIVE_BYTES: AtomicI64 = AtomicI64::new(0);
unsafe impl GlobalAlloc for Counting {
    unsafe fn alloc(&self, l: Layout) -> *mut u8 {
        let p = System.alloc(l);
        if !p.is_null() {
            LIVE_BLOCKS.fetch_add(1, Ordering::Relaxed);
            LIVE_BYTES.fetch_add(l.size() as i64, Ordering::Relaxed);
        }
        p
    }
    unsafe fn dealloc(&self, p: *mut u8, l: Layout) {
        LIVE_BLOCKS.fetch_sub(1, Ordering::Relaxed);
        LIVE_BYTES.fetch_sub(l.size() as i64, Ordering::Relaxed);
        System.dealloc(p, l)
    }
    unsafe fn realloc(&self, p: *mut u8, l: Layout, new: usize) -> *mut u8 {
        let q = System.realloc(p, l, new);
        if !q.is_null() {
            LIVE_BYTES.fetch_add(new as i64 - l.size() as i64, Ordering::Relaxed);
        }
        q
    }
}
#[global_allocator]
static A: Counting = Counting;

fn verif_root() -> String {
    std::env::var("VERIF_ROOT").ok().filter(|s| !s.is_empty()).unwrap_or_else(|| "/verif".to_string())
}

#[derive(Clone, Copy, Debug, PartialEq, Eq)]
enum Act {
    CfgNew(u8),
    CfgFree,
    CtxNew,
    CtxFree,
    Key(u8),
    /// any key code with any modifier byte (key sweep only; not part of the enumerated alphabet)
    KeyRaw(u16, u8),
    Bs,
    CtrlBs,
    CommitFirst,
    CommitLast,
    Finish,
    Ongoing,
    Update,
    Read(u8),
    SugFree(u8),
}

fn act_name(a: &Act) -> String {
    format!("{:?}", a)
}

const KEYS: [(u16, &str); 3] = [(0xA096, "a"), (0xA0A0, "k"), (0x0063, ":")];

/// What a suggestion yielded through the Rust API at the moment it was returned.
#[derive(Clone, Debug, PartialEq)]
struct Expected {
    lonely: bool,
    empty: bool,
    len: usize,
    sel: usize,
    aux: String,
    items: Vec<String>,
    pre: Vec<String>,
}

fn expected_of(s: &Suggestion) -> Expected {
    if s.is_lonely() {
        Expected { lonely: true, empty: s.is_empty(), len: 0, sel: 0, aux: String::new(), items: vec![s.get_lonely_suggestion().to_string()], pre: vec![s.get_pre_edit_text(0).to_string()] }
    } else {
        let items = s.get_suggestions().to_vec();
        let pre = (0..items.len()).map(|i| s.get_pre_edit_text(i).to_string()).collect();
        Expected { lonely: false, empty: s.is_empty(), len: s.len(), sel: s.previously_selected_index(), aux: s.get_auxiliary_text().to_string(), items, pre }
    }
}

struct Sug {
    ptr: *mut Suggestion,
    exp: Expected,
}

struct World {
    cfg: *mut Config,
    cfg_profile: u8,
    ctx: *mut RitiContext,
    /// a second context driven through the Rust API with the same calls: what the C function returns must be what the
    /// Rust API reports for the same call (arguments that are swapped or dropped on the way show here)
    twin: Option<RitiContext>,
    sugs: Vec<Option<Sug>>,
    /// length of the list most recently returned by the context (for in-range commits)
    last_len: usize,
    last_nonempty: bool,
    calls: u64,
    strings: u64,
    problems: Vec<String>,
    xdg: String,
    /// number of update-engine calls so far (each one is preceded by an edit of the user's auto-correct file)
    updates: u64,
}

unsafe fn take_string(w: &mut World, p: *mut c_char, expect: &str, what: &str) {
    w.calls += 1;
    w.strings += 1;
    if p.is_null() {
        w.problems.push(format!("{}: returned a null pointer", what));
        return;
    }
    let c = CStr::from_ptr(p);
    match c.to_str() {
        Ok(s) => {
            if s != expect {
                w.problems.push(format!("{}: C string {:?} differs from the Rust API value {:?}", what, s, expect));
            }
        }
        Err(_) => w.problems.push(format!("{}: C string is not valid UTF-8", what)),
    }
    riti_string_free(p);
    w.calls += 1;
}

unsafe fn set_profile(w: &mut World, p: u8) {
    let cfg = w.cfg;
    fill_profile(w, cfg, p, true);
    w.calls += 15;
    w.cfg_profile = p;
}

unsafe fn fill_profile(w: &mut World, cfg: *mut Config, p: u8, churn: bool) {
    let tiny = CString::new(format!("{}/fixtures/micro_db", verif_root())).unwrap();
    let phonetic = CString::new("avro_phonetic").unwrap();
    let probhat = CString::new(format!("{}/data/Probhat.json", std::env::var("VERIF_REPO").ok().filter(|s| !s.is_empty()).unwrap_or_else(|| "/repo".to_string()))).unwrap();
    let bad = CString::new("/nonexistent/layout.json").unwrap();
    // a rejected path first: the setter must leave the config usable
    if riti_config_set_layout_file(cfg, bad.as_ptr()) {
        w.problems.push("riti_config_set_layout_file accepted a path that does not exist".into());
    }
    let fixed = p >= 2;
    let lonely_ansi = p % 2 == 1;
    if !riti_config_set_layout_file(cfg, if fixed { probhat.as_ptr() } else { phonetic.as_ptr() }) {
        w.problems.push("riti_config_set_layout_file rejected a valid layout".into());
    }
    if !riti_config_set_database_dir(cfg, tiny.as_ptr()) {
        w.problems.push("riti_config_set_database_dir rejected an existing directory".into());
    }
    // the Config handed to the C context has a past: every boolean setter has been called with the opposite value first (a
    // front-end keeps one Config object and flips options on it); the Rust twin is created from a Config that saw each setter once
    if churn {
        riti_config_set_suggestion_include_english(cfg, lonely_ansi);
        riti_config_set_phonetic_suggestion(cfg, lonely_ansi);
        riti_config_set_fixed_suggestion(cfg, lonely_ansi);
        riti_config_set_fixed_auto_vowel(cfg, false);
        riti_config_set_fixed_auto_chandra(cfg, false);
        riti_config_set_fixed_traditional_kar(cfg, p != 2);
        riti_config_set_fixed_old_reph(cfg, false);
        riti_config_set_fixed_numpad(cfg, false);
        riti_config_set_fixed_old_kar_order(cfg, p < 2);
        riti_config_set_ansi_encoding(cfg, !lonely_ansi);
        riti_config_set_smart_quote(cfg, false);
    }
    riti_config_set_suggestion_include_english(cfg, !lonely_ansi);
    riti_config_set_phonetic_suggestion(cfg, !lonely_ansi);
    riti_config_set_fixed_suggestion(cfg, !lonely_ansi);
    riti_config_set_fixed_auto_vowel(cfg, true);
    riti_config_set_fixed_auto_chandra(cfg, true);
    riti_config_set_fixed_traditional_kar(cfg, p == 2);
    riti_config_set_fixed_old_reph(cfg, true);
    riti_config_set_fixed_numpad(cfg, true);
    // (profiles 2 and 3: with the list on a left-standing sign typed first gives a list-style suggestion whose
    // auxiliary text is empty)
    riti_config_set_fixed_old_kar_order(cfg, p >= 2);
    riti_config_set_ansi_encoding(cfg, lonely_ansi);
    riti_config_set_smart_quote(cfg, true);
}

impl World {
    fn new(xdg: &str) -> World {
        World { cfg: std::ptr::null_mut(), cfg_profile: 0, ctx: std::ptr::null_mut(), twin: None, sugs: vec![None, None], last_len: 0, last_nonempty: false, calls: 0, strings: 0, problems: vec![], xdg: xdg.to_string(), updates: 0 }
    }
    fn enabled(&self, profiles: u8) -> Vec<Act> {
        let mut v = vec![];
        if self.cfg.is_null() {
            for p in 0..profiles {
                v.push(Act::CfgNew(p));
            }
        } else {
            v.push(Act::CfgFree);
            if self.ctx.is_null() {
                v.push(Act::CtxNew);
            }
        }
        if !self.ctx.is_null() {
            v.push(Act::CtxFree);
            if self.sugs.iter().any(|s| s.is_none()) {
                for k in 0..KEYS.len() as u8 {
                    v.push(Act::Key(k));
                }
                v.push(Act::Bs);
                v.push(Act::CtrlBs);
            }
            if self.last_nonempty {
                v.push(Act::CommitFirst);
                if self.last_len > 1 {
                    v.push(Act::CommitLast);
                }
            }
            v.push(Act::Finish);
            v.push(Act::Ongoing);
            if !self.cfg.is_null() {
                v.push(Act::Update);
            }
        }
        for (i, s) in self.sugs.iter().enumerate() {
            if s.is_some() {
                v.push(Act::Read(i as u8));
                v.push(Act::SugFree(i as u8));
            }
        }
        v
    }
    unsafe fn store(&mut self, p: *mut Suggestion, twin: Option<Suggestion>) {
        self.calls += 1;
        if p.is_null() {
            self.problems.push("an event returned a null suggestion".into());
            return;
        }
        let exp = expected_of(&*p);
        if let Some(t) = twin {
            let te = expected_of(&t);
            if te != exp {
                self.problems.push(format!("the suggestion returned through the C function is {:?}, the Rust API returns {:?} for the same call on a context with the same history", exp, te));
            }
        }
        self.last_nonempty = !exp.empty;
        self.last_len = if exp.lonely { 1 } else { exp.len };
        let slot = self.sugs.iter().position(|s| s.is_none()).expect("free slot");
        self.sugs[slot] = Some(Sug { ptr: p, exp });
    }
    unsafe fn read_all(&mut self, k: usize) {
        let (ptr, exp) = {
            let s = self.sugs[k].as_ref().unwrap();
            (s.ptr, s.exp.clone())
        };
        // the object must still say what it said when it was returned
        let now = expected_of(&*ptr);
        if now != exp {
            self.problems.push(format!("suggestion changed after it was returned: was {:?}, now {:?}", exp, now));
        }
        let lonely = riti_suggestion_is_lonely(ptr);
        let empty = riti_suggestion_is_empty(ptr);
        self.calls += 2;
        if lonely != exp.lonely || empty != exp.empty {
            self.problems.push(format!("is_lonely/is_empty = {}/{} but the Rust API said {}/{}", lonely, empty, exp.lonely, exp.empty));
        }
        riti_string_free(std::ptr::null_mut()); // freeing a null string is a no-op
        self.calls += 1;
        if exp.lonely {
            let p = riti_suggestion_get_lonely_suggestion(ptr);
            take_string(self, p, &exp.items[0], "get_lonely_suggestion");
            let p = riti_suggestion_get_pre_edit_text(ptr, 0);
            take_string(self, p, &exp.pre[0], "get_pre_edit_text(0) of a lonely suggestion");
        } else {
            let len = riti_suggestion_get_length(ptr);
            let sel = riti_suggestion_previously_selected_index(ptr);
            self.calls += 2;
            if len != exp.len || sel != exp.sel {
                self.problems.push(format!("length/selected = {}/{} but the Rust API said {}/{}", len, sel, exp.len, exp.sel));
            }
            let p = riti_suggestion_get_auxiliary_text(ptr);
            take_string(self, p, &exp.aux, "get_auxiliary_text");
            // all candidate strings are taken first and freed in reverse order
            let mut ps = vec![];
            for i in 0..exp.len {
                ps.push((riti_suggestion_get_suggestion(ptr, i), i));
            }
            for (p, i) in ps.into_iter().rev() {
                take_string(self, p, &exp.items[i], &format!("get_suggestion({})", i));
            }
            for i in 0..exp.len {
                let p = riti_suggestion_get_pre_edit_text(ptr, i);
                take_string(self, p, &exp.pre[i], &format!("get_pre_edit_text({})", i));
            }
        }
    }
    unsafe fn apply(&mut self, a: Act) {
        match a {
            Act::CfgNew(p) => {
                std::env::set_var("XDG_DATA_HOME", &self.xdg);
                self.cfg = riti_config_new();
                self.calls += 1;
                set_profile(self, p);
            }
            Act::CfgFree => {
                riti_config_free(self.cfg);
                self.cfg = std::ptr::null_mut();
                self.calls += 1;
            }
            Act::CtxNew => {
                self.ctx = riti_context_new_with_config(self.cfg);
                {
                    std::env::set_var("XDG_DATA_HOME", &self.xdg);
                    let t = riti_config_new();
                    let p = self.cfg_profile;
                    fill_profile(self, t, p, false);
                    self.twin = Some(RitiContext::new_with_config(&*t));
                    riti_config_free(t);
                }
                self.last_len = 0;
                self.last_nonempty = false;
                self.calls += 1;
            }
            Act::CtxFree => {
                self.twin = None;
                riti_context_free(self.ctx);
                self.ctx = std::ptr::null_mut();
                self.last_len = 0;
                self.last_nonempty = false;
                self.calls += 1;
            }
            Act::Key(k) => {
                let sel = 0;
                let p = riti_get_suggestion_for_key(self.ctx, KEYS[k as usize].0, 0, sel);
                let t = self.twin.as_ref().map(|t| t.get_suggestion_for_key(KEYS[k as usize].0, 0, sel));
                self.store(p, t);
            }
            Act::KeyRaw(code, m) => {
                let p = riti_get_suggestion_for_key(self.ctx, code, m, 0);
                let t = self.twin.as_ref().map(|t| t.get_suggestion_for_key(code, m, 0));
                self.store(p, t);
            }
            Act::Bs => {
                let p = riti_context_backspace_event(self.ctx, false);
                let t = self.twin.as_ref().map(|t| t.backspace_event(false));
                self.store(p, t);
            }
            Act::CtrlBs => {
                let p = riti_context_backspace_event(self.ctx, true);
                let t = self.twin.as_ref().map(|t| t.backspace_event(true));
                self.store(p, t);
            }
            Act::CommitFirst => {
                riti_context_candidate_committed(self.ctx, 0);
                if let Some(t) = &self.twin {
                    t.candidate_committed(0);
                }
                self.last_nonempty = false;
                self.last_len = 0;
                self.calls += 1;
            }
            Act::CommitLast => {
                riti_context_candidate_committed(self.ctx, self.last_len - 1);
                if let Some(t) = &self.twin {
                    t.candidate_committed(self.last_len - 1);
                }
                self.last_nonempty = false;
                self.last_len = 0;
                self.calls += 1;
            }
            Act::Finish => {
                riti_context_finish_input_session(self.ctx);
                if let Some(t) = &self.twin {
                    t.finish_input_session();
                }
                self.last_nonempty = false;
                self.last_len = 0;
                self.calls += 1;
            }
            Act::Ongoing => {
                let o = riti_context_ongoing_input_session(self.ctx);
                if let Some(t) = &self.twin {
                    if t.ongoing_input_session() != o {
                        self.problems.push(format!("riti_context_ongoing_input_session says {}, the Rust API says {}", o, !o));
                    }
                }
                self.calls += 1;
            }
            Act::Update => {
                // in contract only while idle: finish first when a word is in progress
                if riti_context_ongoing_input_session(self.ctx) {
                    riti_context_finish_input_session(self.ctx);
                    if let Some(t) = &self.twin {
                        t.finish_input_session();
                    }
                    self.last_nonempty = false;
                    self.last_len = 0;
                    self.calls += 1;
                }
                // the user's auto-correct file changes before every update-engine (written with entries for the two letter keys,
                // removed again by the next one; modification time set explicitly): the C function must pick the change up
                // exactly as the Rust method does - also when it is handed the configuration the context already uses
                {
                    self.updates += 1;
                    let f = format!("{}/openbangla-keyboard/autocorrect.json", self.xdg);
                    if self.updates % 2 == 1 {
                        let _ = std::fs::write(&f, r#"{"a":"kha","k":"ga","ak":"Dho"}"#);
                        if let Ok(h) = std::fs::File::options().write(true).open(&f) {
                            let _ = h.set_modified(std::time::UNIX_EPOCH + std::time::Duration::from_secs(1_700_000_000 + 10 * self.updates));
                        }
                    } else {
                        let _ = std::fs::remove_file(&f);
                    }
                }
                riti_context_update_engine(self.ctx, self.cfg);
                if let Some(t) = self.twin.as_mut() {
                    t.update_engine(&*self.cfg);
                }
                self.calls += 2;
            }
            Act::Read(k) => self.read_all(k as usize),
            Act::SugFree(k) => {
                let s = self.sugs[k as usize].take().unwrap();
                riti_suggestion_free(s.ptr);
                self.calls += 1;
            }
        }
    }
    /// the driver frees what is left (suggestions are read once more first)
    unsafe fn cleanup(&mut self, variant: u8) {
        // two orders: context first or suggestions first
        if variant == 0 {
            if !self.ctx.is_null() {
                self.apply(Act::CtxFree);
            }
        }
        for k in 0..self.sugs.len() {
            if self.sugs[k].is_some() {
                self.read_all(k);
                self.apply(Act::SugFree(k as u8));
            }
        }
        if !self.ctx.is_null() {
            self.apply(Act::CtxFree);
        }
        if !self.cfg.is_null() {
            self.apply(Act::CfgFree);
        }
    }
}

fn clear_user_dir(xdg: &str) {
    let d = format!("{}/openbangla-keyboard", xdg);
    let _ = std::fs::remove_dir_all(&d);
    std::fs::create_dir_all(&d).expect("user dir");
}

struct Outcome {
    problems: Vec<String>,
    calls: u64,
    strings: u64,
    leaked_blocks: i64,
    leaked_bytes: i64,
    enabled_after: Vec<Act>,
}

/// Execute one sequence from scratch, clean up, measure the heap.
fn execute(seq: &[Act], xdg: &str, profiles: u8) -> Outcome {
    clear_user_dir(xdg);
    // the vectors that outlive the measurement are allocated before the baseline is taken
    let mut enabled_after: Vec<Act> = Vec::with_capacity(64);
    let mut problems: Vec<String> = Vec::with_capacity(64);
    let b0 = LIVE_BLOCKS.load(Ordering::SeqCst);
    let y0 = LIVE_BYTES.load(Ordering::SeqCst);
    let (calls, strings) = unsafe {
        let mut w = World::new(xdg);
        for a in seq {
            w.apply(*a);
        }
        for a in w.enabled(profiles) {
            if enabled_after.len() < enabled_after.capacity() {
                enabled_after.push(a);
            }
        }
        let variant = (seq.len() % 2) as u8;
        w.cleanup(variant);
        for p in w.problems.drain(..) {
            if problems.len() < problems.capacity() {
                problems.push(p);
            }
        }
        (w.calls, w.strings)
    };
    let b1 = LIVE_BLOCKS.load(Ordering::SeqCst);
    let y1 = LIVE_BYTES.load(Ordering::SeqCst);
    // the problem texts themselves are live blocks of the driver
    let own_blocks = problems.len() as i64;
    let own_bytes: i64 = problems.iter().map(|p| p.capacity() as i64).sum();
    Outcome { problems, calls, strings, leaked_blocks: b1 - b0 - own_blocks, leaked_bytes: y1 - y0 - own_bytes, enabled_after }
}

fn seq_json(seq: &[Act]) -> String {
    serde_json::to_string(&seq.iter().map(act_name).collect::<Vec<_>>()).unwrap()
}

fn parse_act(s: &str) -> Option<Act> {
    let num = |p: &str| s.strip_prefix(p).and_then(|r| r.strip_suffix(')')).and_then(|r| r.parse::<u8>().ok());
    Some(match s {
        "CfgFree" => Act::CfgFree,
        "CtxNew" => Act::CtxNew,
        "CtxFree" => Act::CtxFree,
        "Bs" => Act::Bs,
        "CtrlBs" => Act::CtrlBs,
        "CommitFirst" => Act::CommitFirst,
        "CommitLast" => Act::CommitLast,
        "Finish" => Act::Finish,
        "Ongoing" => Act::Ongoing,
        "Update" => Act::Update,
        _ => {
            if let Some(n) = num("CfgNew(") {
                Act::CfgNew(n)
            } else if let Some(r) = s.strip_prefix("KeyRaw(").and_then(|r| r.strip_suffix(')')) {
                let (a, b) = r.split_once(", ")?;
                Act::KeyRaw(a.parse().ok()?, b.parse().ok()?)
            } else if let Some(n) = num("Key(") {
                Act::Key(n)
            } else if let Some(n) = num("Read(") {
                Act::Read(n)
            } else if let Some(n) = num("SugFree(") {
                Act::SugFree(n)
            } else {
                return None;
            }
        }
    })
}

static SEQS: AtomicU64 = AtomicU64::new(0);
static CALLS: AtomicU64 = AtomicU64::new(0);
static SWEEP: AtomicU64 = AtomicU64::new(0);
static SKIPPED_K01: AtomicU64 = AtomicU64::new(0);
static EMOJI_SWEEP: AtomicU64 = AtomicU64::new(0);
static STRINGS: AtomicU64 = AtomicU64::new(0);

struct Shard {
    k: usize,
    n: usize,
    depth: usize,
    profiles: u8,
    xdg: String,
    journal: std::fs::File,
    findings: Vec<serde_json::Value>,
    counter: u64,
    samples: Vec<serde_json::Value>,
}

impl Shard {
    fn visit(&mut self, seq: &mut Vec<Act>) {
        // Every shard walks the tree down to depth 3 (it needs the enabled actions), shard 0 judges
        // those short sequences; the sub-trees below depth 3 are dealt round-robin to the shards.
        let mine = seq.len() >= 3 || self.k == 0;
        // journal before executing: an AddressSanitizer abort is attributed to this line
        {
            use std::io::Seek;
            let _ = self.journal.seek(std::io::SeekFrom::Start(0));
            let line = format!("{}\n{:200}\n", seq_json(seq), "");
            let _ = self.journal.write_all(line.as_bytes());
        }
        let o = execute(seq, &self.xdg, self.profiles);
        if mine {
            SEQS.fetch_add(1, Ordering::Relaxed);
            if seq.len() == self.depth && self.samples.len() < 3 && seq.iter().any(|a| matches!(a, Act::Read(_))) {
                self.samples.push(serde_json::json!({"sequence": seq.iter().map(act_name).collect::<Vec<_>>(), "c_calls": o.calls, "strings_checked": o.strings}));
            }
            CALLS.fetch_add(o.calls, Ordering::Relaxed);
            STRINGS.fetch_add(o.strings, Ordering::Relaxed);
            let mut problems = o.problems.clone();
            if o.leaked_blocks != 0 {
                // one-time initialisations inside dependencies are not leaks: a leak repeats
                let o2 = execute(seq, &self.xdg, self.profiles);
                if o2.leaked_blocks > 0 {
                    problems.push(format!("leak: {} heap block(s) / {} byte(s) still live after every handle was freed (second run: {} / {})", o.leaked_blocks, o.leaked_bytes, o2.leaked_blocks, o2.leaked_bytes));
                }
            }
            if !problems.is_empty() {
                self.findings.push(serde_json::json!({"sequence": seq.iter().map(act_name).collect::<Vec<_>>(), "problems": problems}));
            }
        }
        if seq.len() >= self.depth {
            return;
        }
        for a in o.enabled_after {
            seq.push(a);
            if seq.len() == 3 {
                self.counter += 1;
                if (self.counter as usize) % self.n != self.k {
                    seq.pop();
                    continue;
                }
            }
            self.visit(seq);
            seq.pop();
        }
    }
}

fn run_shard(depth: usize, k: usize, n: usize, dir: &str) -> i32 {
    let xdg = format!("{}/xdg-{}", dir, k);
    std::fs::create_dir_all(&xdg).unwrap();
    let journal = std::fs::File::create(format!("{}/journal-{}.txt", dir, k)).unwrap();
    // warm-up: one-time initialisations (thread locals, hash seeds, regex pools) before measuring
    let mut journal = journal;
    for p in 0..4u8 {
        let warm = [Act::CfgNew(p), Act::CtxNew, Act::Key(0), Act::Read(0), Act::SugFree(0), Act::Key(1), Act::Bs, Act::CommitFirst, Act::Update];
        {
            use std::io::Seek;
            let _ = journal.seek(std::io::SeekFrom::Start(0));
            let _ = journal.write_all(format!("{}\n{:200}\n", seq_json(&warm), "").as_bytes());
        }
        let _ = execute(&warm, &xdg, 4);
    }
    let mut sh = Shard { k, n, depth, profiles: 4, xdg, journal, findings: vec![], counter: 0, samples: vec![] };
    let mut seq = vec![];
    sh.visit(&mut seq);
    // ---- key sweep: the strings of EVERY published key (x no modifier / AltGr) cross the interface intact and are
    // freed, from a set of composition states per profile (values the three keys of the alphabet never produce: empty
    // values, multi-code-point values, rewritten compositions, ANSI conversions of every character of the layout)
    let key = |c: char, m: u8| Act::KeyRaw(keys::code_for_char(c).unwrap(), m);
    let pre_fixed: Vec<Vec<Act>> = vec![vec![], vec![key('k', 0)], vec![key('k', 0), key('/', 0)], vec![key('k', 0), key('a', 0)], vec![key('v', 0)], vec![key(',', 0)], vec![key('"', 0), key('k', 0)], vec![key('k', 0), key('/', 0), key('k', 0)],
        // consonants that combine with the nukta key (decomposed letters cross the ANSI conversion), alone and inside a word with
        // dictionary candidates
        vec![key('D', 0)], vec![key('g', 0), key('a', 0), key('D', 0)]];
    let mut pre_fixed = pre_fixed;
    if depth >= 7 {
        // thorough tier: EVERY published key in both planes as the composition state (all two-key compositions)
        for kd in keys::KEYS.iter() {
            for m in [0u8, 2] {
                pre_fixed.push(vec![Act::KeyRaw(kd.code, m)]);
            }
        }
    }
    let pre_phon: Vec<Vec<Act>> = vec![vec![], vec![key('k', 0)], vec![key('a', 0)], vec![key(':', 0)], vec![key('`', 0)], vec![key('"', 0), key('k', 0)], vec![key('k', 0), key('O', 0)]];
    // Known finding K01 (C01/C02/C16): with ANSI on, a text containing U+09C4 (or the unassigned U+09C5/6/9/A) makes the
    // third-party Bijoy converter panic, which aborts the process at the C boundary. Those keys are left out of the ANSI
    // profiles here (the abort would end the shard); everything else is swept.
    let k01: Vec<(u16, u8)> = {
        let repo = std::env::var("VERIF_REPO").ok().filter(|s| !s.is_empty()).unwrap_or_else(|| "/repo".to_string());
        let v: serde_json::Value = serde_json::from_str(&std::fs::read_to_string(format!("{}/data/Probhat.json", repo)).expect("Probhat.json")).expect("layout json");
        let mut out = vec![];
        for (name, val) in v["layout"].as_object().expect("layout") {
            let bad = val.as_str().unwrap_or("").chars().any(|c| matches!(c, '\u{09C4}' | '\u{09C5}' | '\u{09C6}' | '\u{09C9}' | '\u{09CA}'));
            if !bad {
                continue;
            }
            let Some(rest) = name.strip_prefix("Key_") else { continue };
            let Some((entry, plane)) = rest.rsplit_once('_') else { continue };
            for kd in keys::KEYS.iter().filter(|k| k.entry == Some(entry)) {
                out.push((kd.code, if plane == "AltGr" { 2 } else { 0 }));
            }
        }
        out
    };
    let mut item = 0usize;
    for p in 0..4u8 {
        let pres = if p >= 2 { &pre_fixed } else { &pre_phon };
        for pre in pres {
            for kd in keys::KEYS.iter() {
                for m in [0u8, 2] {
                    if p < 2 && m != 0 {
                        continue; // the phonetic method ignores the modifier
                    }
                    if p == 3 && k01.contains(&(kd.code, m)) {
                        SKIPPED_K01.fetch_add(1, Ordering::Relaxed);
                        continue;
                    }
                    item += 1;
                    if item % n != k {
                        continue;
                    }
                    let mut s: Vec<Act> = vec![Act::CfgNew(p), Act::CtxNew];
                    s.extend(pre.iter().cloned());
                    s.push(Act::KeyRaw(kd.code, m));
                    // every earlier suggestion is freed at once (slot 0 is reused), the last one is read out twice: by
                    // Read(0) and again by the clean-up, after the context has been freed
                    let mut full: Vec<Act> = vec![];
                    let nev = s.iter().filter(|a| matches!(a, Act::KeyRaw(..))).count();
                    let mut seen = 0;
                    for a in s {
                        let is_event = matches!(a, Act::KeyRaw(..));
                        full.push(a);
                        if is_event {
                            seen += 1;
                            full.push(if seen < nev { Act::SugFree(0) } else { Act::Read(0) });
                        }
                    }
                    {
                        use std::io::Seek;
                        let _ = sh.journal.seek(std::io::SeekFrom::Start(0));
                        let _ = sh.journal.write_all(format!("{}\n{:200}\n", seq_json(&full), "").as_bytes());
                    }
                    let o = execute(&full, &sh.xdg, 4);
                    SEQS.fetch_add(1, Ordering::Relaxed);
                    SWEEP.fetch_add(1, Ordering::Relaxed);
                    CALLS.fetch_add(o.calls, Ordering::Relaxed);
                    STRINGS.fetch_add(o.strings, Ordering::Relaxed);
                    let mut problems = o.problems.clone();
                    if o.leaked_blocks != 0 {
                        let o2 = execute(&full, &sh.xdg, 4);
                        if o2.leaked_blocks > 0 {
                            problems.push(format!("leak: {} heap block(s) / {} byte(s) still live after every handle was freed (second run: {} / {})", o.leaked_blocks, o.leaked_bytes, o2.leaked_blocks, o2.leaked_bytes));
                        }
                    }
                    if !problems.is_empty() {
                        sh.findings.push(serde_json::json!({"sequence": full.iter().map(act_name).collect::<Vec<_>>(), "problems": problems}));
                    }
                }
            }
        }
    }
    // ---- emoji sweep: every emoticon and every English emoji name typed through the C interface under the phonetic list profile and
    // read out through every accessor (before and after the context is freed): the strings that cross the boundary cover every
    // emoji character of the tables (code points of every shape), each compared with what the Rust API reports
    {
        let mut texts: Vec<String> = emojicon::internal::emoticons().keys().map(|k| k.to_string()).collect();
        texts.extend(emojicon::internal::emojis().keys().map(|k| k.to_string()));
        texts.sort();
        texts.dedup();
        for (ti, t) in texts.iter().enumerate() {
            if ti % n != k {
                continue;
            }
            let Some(codes) = t.chars().map(keys::code_for_char).collect::<Option<Vec<u16>>>() else { continue };
            if codes.is_empty() {
                continue;
            }
            let mut full: Vec<Act> = vec![Act::CfgNew(0), Act::CtxNew];
            for (i, c) in codes.iter().enumerate() {
                full.push(Act::KeyRaw(*c, 0));
                full.push(if i + 1 < codes.len() { Act::SugFree(0) } else { Act::Read(0) });
            }
            {
                use std::io::Seek;
                let _ = sh.journal.seek(std::io::SeekFrom::Start(0));
                let _ = sh.journal.write_all(format!("{}\n{:200}\n", seq_json(&full), "").as_bytes());
            }
            let o = execute(&full, &sh.xdg, 4);
            SEQS.fetch_add(1, Ordering::Relaxed);
            EMOJI_SWEEP.fetch_add(1, Ordering::Relaxed);
            CALLS.fetch_add(o.calls, Ordering::Relaxed);
            STRINGS.fetch_add(o.strings, Ordering::Relaxed);
            let mut problems = o.problems.clone();
            if o.leaked_blocks != 0 {
                let o2 = execute(&full, &sh.xdg, 4);
                if o2.leaked_blocks > 0 {
                    problems.push(format!("leak: {} heap block(s) / {} byte(s) still live after every handle was freed (second run: {} / {})", o.leaked_blocks, o.leaked_bytes, o2.leaked_blocks, o2.leaked_bytes));
                }
            }
            if !problems.is_empty() {
                sh.findings.push(serde_json::json!({"sequence": full.iter().map(act_name).collect::<Vec<_>>(), "problems": problems}));
            }
        }
    }
    let out = serde_json::json!({
        "shard": k, "sequences": SEQS.load(Ordering::Relaxed), "key_sweep_sequences": SWEEP.load(Ordering::Relaxed), "key_sweep_skipped_k01": SKIPPED_K01.load(Ordering::Relaxed), "emoji_sweep_sequences": EMOJI_SWEEP.load(Ordering::Relaxed), "calls": CALLS.load(Ordering::Relaxed), "strings": STRINGS.load(Ordering::Relaxed),
        "findings": sh.findings,
        "samples": sh.samples,
    });
    std::fs::write(format!("{}/result-{}.json", dir, k), out.to_string()).unwrap();
    0
}

fn replay(file: &str) -> i32 {
    let v: serde_json::Value = serde_json::from_str(&std::fs::read_to_string(file).expect("read")).expect("json");
    let seq: Vec<Act> = v["sequence"].as_array().expect("sequence").iter().filter_map(|s| parse_act(s.as_str()?)).collect();
    println!("sequence: {:?}", seq);
    let xdg = format!("{}/.build/run/ffi-replay-{}", verif_root(), std::process::id());
    std::fs::create_dir_all(&xdg).unwrap();
    let _ = execute(&[Act::CfgNew(0), Act::CtxNew, Act::Key(0), Act::Read(0)], &xdg, 4);
    let o = execute(&seq, &xdg, 4);
    let o2 = execute(&seq, &xdg, 4);
    println!("problems: {:?}", o.problems);
    println!("heap blocks still live after cleanup: {} (second run {})", o.leaked_blocks, o2.leaked_blocks);
    let _ = std::fs::remove_dir_all(&xdg);
    0
}

fn main() {
    let args: Vec<String> = std::env::args().collect();
    let code = match args.get(1).map(|s| s.as_str()) {
        Some("shard") => run_shard(args[2].parse().unwrap(), args[3].parse().unwrap(), args[4].parse().unwrap(), &args[5]),
        Some("replay") => replay(&args[2]),
        _ => {
            eprintln!("usage: ritiffi shard <depth> <k> <n> <dir> | replay <file>");
            2
        }
    };
    std::process::exit(code);
}
