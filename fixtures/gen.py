#!/usr/bin/env python3
"""Regenerates the committed fixture layouts from /repo/data/Probhat.json (run by hand; outputs are committed)."""
import json, copy
src = json.load(open('/repo/data/Probhat.json'))

def write(name, lay, title):
    d = copy.deepcopy(src)
    d['layout'] = lay
    d['info']['layout']['name'] = title
    json.dump(d, open(name, 'w'), ensure_ascii=False, indent=1, sort_keys=True)

# layout_synth: Probhat plus one representative of every value class the code distinguishes
lay = dict(src['layout'])
lay['Key_k_AltGr'] = 'র্'          # reph
lay['Key_r_AltGr'] = '্র'          # ro-fola
lay['Key_z_AltGr'] = '্য'          # zo-fola
lay['Key_K_AltGr'] = 'ক্ষ'    # consonant-first conjunct
lay['Key_c_AltGr'] = 'ক্'          # consonant + hasanta (value ending in hasanta)
lay['Key_e_AltGr'] = ''                      # empty value
del lay['Key_q_AltGr']                       # missing entry
lay['Num5'] = ''                             # empty number-pad value
del lay['Num6']                              # missing number-pad entry
lay['Key_j_AltGr'] = 'াঁ'          # sign-first two-code-point value (aa-kar + chandrabindu)
# regex-special ASCII characters a layout may emit (Probhat has none of them): the typed word is pasted into a regex
lay['Key_BackSlash_AltGr'] = '\\'
lay['Key_BracketLeft_AltGr'] = '['
lay['Key_BraceLeft_AltGr'] = '{'
lay['Key_Bar_AltGr'] = '|'
lay['Key_Asterisk_AltGr'] = '*'
lay['Key_Circum_AltGr'] = '$'
lay['Key_Greater_AltGr'] = '.'
write('layout_synth.json', lay, 'verif synthetic layout (Probhat + multi-codepoint / empty / missing entries)')

# layout_karfirst: vowel-sign-first multi-code-point values (C04 only)
lay2 = dict(lay)
lay2['Key_i_AltGr'] = 'িক'
lay2['Key_u_AltGr'] = 'ুু'
lay2['Key_x_AltGr'] = 'xyz'
write('layout_karfirst.json', lay2, 'verif kar-first layout')

# layout_alt: a second, different fixed layout (C11 fixed <-> fixed)
lay3 = dict(src['layout'])
lay3['Key_a_Normal'], lay3['Key_s_Normal'] = lay3['Key_s_Normal'], lay3['Key_a_Normal']
lay3['Key_k_Normal'] = 'খ'
lay3['Key_K_Normal'] = 'ক'
lay3['Key_e_Normal'] = 'ে'
write('layout_alt.json', lay3, 'verif alternative layout')

# tiny_db: small data directory for deep history searches. Every word over {a,s,e,r} collides
# with something: dictionary hits, auto-correct hits, base+suffix splits.
import os, shutil
os.makedirs('tiny_db', exist_ok=True)
dic = json.load(open('/repo/data/dictionary.json'))
tables = ['a','aa','e','oi','o','nya','y','s','sh','ss','i','ii','rri','h','r','rr','rrh']
tiny = {}
for t in dic:
    if t in tables:
        tiny[t] = [w for w in dic[t] if len(w) <= 3]
    else:
        tiny[t] = dic[t][:2]
json.dump(tiny, open('tiny_db/dictionary.json','w'), ensure_ascii=False, sort_keys=True)
shutil.copy('/repo/data/suffix.json', 'tiny_db/suffix.json')
json.dump({"rss": "ar.`es.`es", "aes": "eyas", "sa": "sha", "are": "are", "ser": "shera", "asr": "asOr", "ase": "asche"},
          open('tiny_db/autocorrect.json','w'), ensure_ascii=False, sort_keys=True)
print('tiny words', sum(len(v) for v in tiny.values()))

# micro_db: minimal data directory for the C-ABI explorer (context creation under AddressSanitizer)
os.makedirs('micro_db', exist_ok=True)
micro = {t: [w for w in dic[t] if len(w) <= 2][:12] for t in dic}
json.dump(micro, open('micro_db/dictionary.json','w'), ensure_ascii=False, sort_keys=True)
sfx = json.load(open('/repo/data/suffix.json'))
json.dump({k: sfx[k] for k in sorted(sfx) if len(k) <= 2}, open('micro_db/suffix.json','w'), ensure_ascii=False, sort_keys=True)
json.dump({"ak": "ek", "k:": "kO"}, open('micro_db/autocorrect.json','w'), ensure_ascii=False, sort_keys=True)
print('micro words', sum(len(v) for v in micro.values()))
