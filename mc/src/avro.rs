//! Harness-side Avro helpers: the punctuation split of the property statements, a reference
//! implementation of the splitter's back-tick / colon rules (second implementation, written
//! from the documented behaviour), transliteration through the harness's own okkhor parser,
//! and the three-rule suffix joining.

use okkhor::parser::Parser;

/// The punctuation set of C03's statement (27 characters) plus the danda the splitter's own
/// documentation lists.
pub const PUNCT: &str = "-]~!@#%&*()_=+[{}'\";<>/?|.,";
pub const META: &str = "-]~!@#%&*()_=+[{}'\";<>/?|.,\u{0964}";

/// Statement-level split: maximal punctuation prefix, maximal punctuation suffix of the rest.
pub fn split_simple(s: &str) -> (&str, &str, &str) {
    let start = s.find(|c| !PUNCT.contains(c)).unwrap_or(s.len());
    let (lead, rest) = s.split_at(start);
    let end = rest.char_indices().rev().take_while(|(_, c)| PUNCT.contains(*c)).last().map(|(i, _)| i).unwrap_or(rest.len());
    let (word, trail) = rest.split_at(end);
    (lead, word, trail)
}

/// Reference splitter with the documented escape rules: a trailing run of meta characters is
/// split off; a back-tick directly after a colon (reading left to right: `:` followed by `` ` ``)
/// makes that colon part of the trailing run even when colons are otherwise word characters;
/// with `include_colon` every trailing colon is meta.
pub fn split_ref(s: &str, include_colon: bool) -> (String, String, String) {
    let cs: Vec<char> = s.chars().collect();
    let mut a = 0;
    while a < cs.len() && META.contains(cs[a]) {
        a += 1;
    }
    if a == cs.len() {
        return (s.to_string(), String::new(), String::new());
    }
    // scan from the right
    let mut cut = cs.len();
    let mut i = cs.len();
    let mut pending_tick = false;
    while i > a {
        let c = cs[i - 1];
        if c == '`' && !pending_tick {
            pending_tick = true; // may turn the colon on its left into a meta character
        } else if (c == ':' && (include_colon || pending_tick)) || META.contains(c) {
            pending_tick = false;
            cut = i - 1;
        } else {
            break;
        }
        i -= 1;
    }
    (cs[..a].iter().collect(), cs[a..cut].iter().collect(), cs[cut..].iter().collect())
}

pub struct Avro {
    pub phonetic: Parser,
    pub regex: Parser,
}

impl Avro {
    pub fn new() -> Avro {
        Avro { phonetic: Parser::new_phonetic(), regex: Parser::new_regex() }
    }
    pub fn tr(&self, s: &str) -> String {
        self.phonetic.convert(s)
    }
    /// transliteration of a typed text by parts (lead, word, trail)
    pub fn tr_parts(&self, lead: &str, word: &str, trail: &str) -> String {
        format!("{}{}{}", self.tr(lead), self.tr(word), self.tr(trail))
    }
}

pub fn uncurl(s: &str) -> String {
    s.chars()
        .map(|c| match c {
            '\u{2018}' | '\u{2019}' => '\'',
            '\u{201C}' | '\u{201D}' => '"',
            c => c,
        })
        .collect()
}

/// C08 joining: য় between a final vowel and an initial vowel sign, final ৎ -> ত, final ং -> ঙ.
pub fn join(base: &str, suffix: &str) -> String {
    use crate::bn::*;
    let mut out = base.to_string();
    let last = base.chars().last();
    let first = suffix.chars().next();
    match (last, first) {
        (Some(l), Some(f)) if (is_indep_vowel(l) || is_common_sign(l)) && is_sign(f) => out.push(YYA),
        (Some(KHANDA_TA), _) => {
            out.pop();
            out.push(TA);
        }
        (Some(ANUSVARA), _) => {
            out.pop();
            out.push(NGA);
        }
        _ => {}
    }
    out.push_str(suffix);
    out
}

#[cfg(test)]
mod tests {
    use super::*;
    #[test]
    fn split_examples() {
        assert_eq!(split_simple("(ab)."), ("(", "ab", ")."));
        assert_eq!(split_simple("..."), ("...", "", ""));
        assert_eq!(split_ref("kt:`", false), ("".into(), "kt".into(), ":`".into()));
        assert_eq!(split_ref("kt:", false), ("".into(), "kt:".into(), "".into()));
        assert_eq!(split_ref("kt::`", false), ("".into(), "kt:".into(), ":`".into()));
        assert_eq!(split_ref("kt``", false), ("".into(), "kt``".into(), "".into()));
    }
}
