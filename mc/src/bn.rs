//! Bengali character classes by Unicode range (the harness's own definitions, not riti's
//! string tables). All literals are \u escapes on purpose.

pub const HASANTA: char = '\u{09CD}';
pub const CHANDRA: char = '\u{0981}';
pub const ANUSVARA: char = '\u{0982}';
pub const ZWNJ: char = '\u{200C}';
pub const ZWJ: char = '\u{200D}';
pub const RA: char = '\u{09B0}';
pub const YA: char = '\u{09AF}';
pub const YYA: char = '\u{09DF}';
pub const KHANDA_TA: char = '\u{09CE}';
pub const TA: char = '\u{09A4}';
pub const NGA: char = '\u{0999}';
pub const AU_MARK: char = '\u{09D7}';
pub const DANDA: char = '\u{0964}';
pub const REPH: &str = "\u{09B0}\u{09CD}";
pub const ZOFOLA: &str = "\u{09CD}\u{09AF}";
pub const ROFOLA: &str = "\u{09CD}\u{09B0}";

/// Consonant letters: U+0995..U+09B9 (assigned ones) plus khanda-ta and the three nukta forms.
pub fn is_consonant(c: char) -> bool {
    matches!(c,
        '\u{0995}'..='\u{09A8}' | '\u{09AA}'..='\u{09B0}' | '\u{09B2}' | '\u{09B6}'..='\u{09B9}'
        | '\u{09CE}' | '\u{09DC}' | '\u{09DD}' | '\u{09DF}')
}

/// Independent vowels in common use (U+0985..U+0994 assigned, plus vocalic L / LL).
pub fn is_indep_vowel(c: char) -> bool {
    matches!(c,
        '\u{0985}'..='\u{098C}' | '\u{098F}' | '\u{0990}' | '\u{0993}' | '\u{0994}' | '\u{09E1}')
}

/// The ten vowel signs that have a matching independent vowel in the property's sense.
pub fn is_common_sign(c: char) -> bool {
    matches!(c, '\u{09BE}'..='\u{09C3}' | '\u{09C7}' | '\u{09C8}' | '\u{09CB}' | '\u{09CC}')
}

/// Rare signs for which the statement defines no result (vocalic RR, vocalic L/LL signs).
pub fn is_rare_sign(c: char) -> bool {
    matches!(c, '\u{09C4}' | '\u{09E2}' | '\u{09E3}')
}

pub fn is_sign(c: char) -> bool {
    is_common_sign(c) || is_rare_sign(c)
}

pub fn indep_for_sign(c: char) -> Option<char> {
    Some(match c {
        '\u{09BE}' => '\u{0986}',
        '\u{09BF}' => '\u{0987}',
        '\u{09C0}' => '\u{0988}',
        '\u{09C1}' => '\u{0989}',
        '\u{09C2}' => '\u{098A}',
        '\u{09C3}' => '\u{098B}',
        '\u{09C7}' => '\u{098F}',
        '\u{09C8}' => '\u{0990}',
        '\u{09CB}' => '\u{0993}',
        '\u{09CC}' => '\u{0994}',
        _ => return None,
    })
}

pub fn is_ligature_sign(c: char) -> bool {
    matches!(c, '\u{09C1}' | '\u{09C2}' | '\u{09C3}')
}

pub fn is_bengali_block(c: char) -> bool {
    ('\u{0980}'..='\u{09FF}').contains(&c)
}

pub fn esc(s: &str) -> String {
    s.chars()
        .map(|c| if c.is_ascii() && !c.is_ascii_control() { c.to_string() } else { format!("\\u{{{:04X}}}", c as u32) })
        .collect()
}
