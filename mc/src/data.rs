//! Harness-side view of the data files (read with serde_json by the harness itself) and an
//! inverse layout map for typing Bengali text through a fixed layout.

use crate::drv::Ev;
use std::collections::{BTreeMap, HashMap, HashSet};

pub struct Dict {
    pub tables: BTreeMap<String, Vec<String>>,
    pub set: HashSet<String>,
    pub suffix: HashMap<String, String>,
    pub autocorrect: HashMap<String, String>,
}

impl Dict {
    pub fn load(dir: &str) -> Dict {
        let rd = |n: &str| std::fs::read_to_string(format!("{}/{}", dir, n)).unwrap_or_else(|_| panic!("read {}/{}", dir, n));
        let tables: BTreeMap<String, Vec<String>> = serde_json::from_str(&rd("dictionary.json")).expect("dictionary.json");
        let set = tables.values().flatten().cloned().collect();
        Dict {
            tables,
            set,
            suffix: serde_json::from_str(&rd("suffix.json")).expect("suffix.json"),
            autocorrect: serde_json::from_str(&rd("autocorrect.json")).expect("autocorrect.json"),
        }
    }
    pub fn words(&self) -> impl Iterator<Item = &String> {
        self.tables.values().flatten()
    }
}

/// char -> key event, built from a layout JSON (single-code-point values only; the Normal
/// plane is preferred).
pub struct InverseLayout {
    map: HashMap<char, Ev>,
    /// ASCII character of the key that produces the Bengali character (for the raw key text)
    key_char: HashMap<char, char>,
}

impl InverseLayout {
    pub fn load(path: &str) -> InverseLayout {
        let v: serde_json::Value = serde_json::from_str(&std::fs::read_to_string(path).expect("layout")).unwrap();
        let lay = v["layout"].as_object().unwrap();
        let mut map = HashMap::new();
        let mut key_char = HashMap::new();
        for plane in ["AltGr", "Normal"] {
            // Normal inserted last so it wins
            for k in crate::keys::KEYS.iter().filter(|k| !k.numpad) {
                let name = format!("Key_{}_{}", k.entry.unwrap(), plane);
                if let Some(val) = lay.get(&name).and_then(|x| x.as_str()) {
                    let mut cs = val.chars();
                    if let (Some(c), None) = (cs.next(), cs.next()) {
                        if c == 'E' && plane == "AltGr" {
                            continue; // filler of the bundled test layout
                        }
                        map.insert(c, Ev::Key { code: k.code, m: if plane == "AltGr" { 2 } else { 0 }, sel: 0 });
                        key_char.insert(c, k.ch.unwrap());
                    }
                }
            }
        }
        InverseLayout { map, key_char }
    }
    pub fn key(&self, c: char) -> Option<&Ev> {
        self.map.get(&c)
    }
    pub fn events(&self, s: &str) -> Option<Vec<Ev>> {
        s.chars().map(|c| self.map.get(&c).cloned()).collect()
    }
    /// the raw key characters typing `s` produces
    pub fn raw(&self, s: &str) -> Option<String> {
        s.chars().map(|c| self.key_char.get(&c).copied()).collect()
    }
}
