//! Driver: builds configurations through the exported C symbols, wraps a real
//! `RitiContext`, applies events under `catch_unwind` and renders every returned
//! `Suggestion` completely through its public accessors.

use riti::config::Config;
use riti::context::RitiContext;
use riti::suggestion::Suggestion;
use serde_json::{json, Value};
use std::cell::RefCell;
use std::ffi::CString;
use std::os::raw::c_char;
use std::panic::{catch_unwind, AssertUnwindSafe};
use std::path::{Path, PathBuf};
use std::sync::{Arc, Mutex, Weak};

extern "C" {
    fn riti_config_new() -> *mut Config;
    fn riti_config_free(ptr: *mut Config);
    fn riti_config_set_layout_file(ptr: *mut Config, path: *const c_char) -> bool;
    fn riti_config_set_database_dir(ptr: *mut Config, path: *const c_char) -> bool;
    fn riti_config_set_suggestion_include_english(ptr: *mut Config, option: bool);
    fn riti_config_set_phonetic_suggestion(ptr: *mut Config, option: bool);
    fn riti_config_set_fixed_suggestion(ptr: *mut Config, option: bool);
    fn riti_config_set_fixed_auto_vowel(ptr: *mut Config, option: bool);
    fn riti_config_set_fixed_auto_chandra(ptr: *mut Config, option: bool);
    fn riti_config_set_fixed_traditional_kar(ptr: *mut Config, option: bool);
    fn riti_config_set_fixed_old_reph(ptr: *mut Config, option: bool);
    fn riti_config_set_fixed_numpad(ptr: *mut Config, option: bool);
    fn riti_config_set_fixed_old_kar_order(ptr: *mut Config, option: bool);
    fn riti_config_set_ansi_encoding(ptr: *mut Config, option: bool);
    fn riti_config_set_smart_quote(ptr: *mut Config, option: bool);
}

/// The riti tree under test: /repo, or `VERIF_REPO` (a scratch copy with a seeded change applied,
/// used only by the seeding tools, never by the registered commands).
pub fn repo_root() -> &'static str {
    static ROOT: std::sync::OnceLock<String> = std::sync::OnceLock::new();
    ROOT.get_or_init(|| std::env::var("VERIF_REPO").ok().filter(|s| !s.is_empty()).unwrap_or_else(|| "/repo".to_string()))
}
/// Root of the verification tree: `VERIF_ROOT` (exported by bin/check: the directory the check was
/// started from, so that a snapshot run keeps its evidence, replays and scratch to itself), else /verif.
pub fn verif_root() -> &'static str {
    static ROOT: std::sync::OnceLock<String> = std::sync::OnceLock::new();
    ROOT.get_or_init(|| std::env::var("VERIF_ROOT").ok().filter(|s| !s.is_empty()).unwrap_or_else(|| "/verif".to_string()))
}
pub const PHONETIC: &str = "avro_phonetic";

pub fn probhat() -> String {
    format!("{}/data/Probhat.json", repo_root())
}
pub fn real_db() -> String {
    format!("{}/data", repo_root())
}
pub fn fixture(name: &str) -> String {
    format!("{}/fixtures/{}", verif_root(), name)
}

/// Everything a `Config` carries, in harness terms.
#[derive(Clone, Debug, PartialEq, Eq, Hash)]
pub struct Opts {
    /// `avro_phonetic` or a layout file path.
    pub layout: String,
    /// Database directory ("" = unset).
    pub db: String,
    /// Value of XDG_DATA_HOME at config creation; the user directory is `<xdg>/openbangla-keyboard`.
    pub xdg: String,
    pub english: bool,
    pub psugg: bool,
    pub fsugg: bool,
    pub vowel: bool,
    pub chandra: bool,
    pub kar: bool,
    pub reph: bool,
    pub numpad: bool,
    pub karorder: bool,
    pub ansi: bool,
    pub smart: bool,
    /// order in which the option setters are called when the Config is built: false = as
    /// listed in riti.h (English ... ANSI, smart quote); true = reversed (ANSI before English).
    /// A front-end may call them in any order; the result must not depend on it.
    pub reversed_setters: bool,
    /// true = the context is created with every boolean option inverted (same layout, data and user directory), composes
    /// and ends one word under those options, and reaches these options through update_engine (while idle) before the
    /// first event: a live, used, re-configured context.
    pub via_update: bool,
    /// the `Config` object has a past: every boolean setter is first called with the inverted value, then with the value under
    /// test (a front-end keeps one Config object and flips options on it)
    pub churn: bool,
    /// the context was created for the OTHER method (phonetic <-> Probhat) with the same options and data directory, composed one
    /// word there, and was then switched to the layout under test by update-engine: whatever is loaded once per context was loaded
    /// under another layout
    pub via_switch: bool,
}

impl Opts {
    pub fn phonetic(db: &str, xdg: &str) -> Opts {
        Opts {
            layout: PHONETIC.into(),
            db: db.into(),
            xdg: xdg.into(),
            english: false,
            psugg: true,
            fsugg: false,
            vowel: false,
            chandra: false,
            kar: false,
            reph: false,
            numpad: false,
            karorder: false,
            ansi: false,
            smart: true,
            reversed_setters: false,
            via_update: false,
            churn: false,
            via_switch: false,
        }
    }
    pub fn fixed(layout: &str, db: &str, xdg: &str) -> Opts {
        Opts {
            layout: layout.into(),
            db: db.into(),
            xdg: xdg.into(),
            english: false,
            psugg: false,
            fsugg: false,
            vowel: false,
            chandra: false,
            kar: false,
            reph: false,
            numpad: false,
            karorder: false,
            ansi: false,
            smart: true,
            reversed_setters: false,
            via_update: false,
            churn: false,
            via_switch: false,
        }
    }
    pub fn is_phonetic(&self) -> bool {
        self.layout == PHONETIC
    }
    pub fn user_dir(&self) -> PathBuf {
        Path::new(&self.xdg).join("openbangla-keyboard")
    }
    pub fn selection_file(&self) -> PathBuf {
        self.user_dir().join("phonetic-candidate-selection.json")
    }
    pub fn user_autocorrect_file(&self) -> PathBuf {
        self.user_dir().join("autocorrect.json")
    }
    /// Set the 11 boolean options from a bit mask (bit order as in `FLAG_NAMES`).
    pub fn with_bits(mut self, bits: u32) -> Opts {
        let b = |i: u32| bits & (1 << i) != 0;
        self.english = b(0);
        self.psugg = b(1);
        self.fsugg = b(2);
        self.vowel = b(3);
        self.chandra = b(4);
        self.kar = b(5);
        self.reph = b(6);
        self.numpad = b(7);
        self.karorder = b(8);
        self.ansi = b(9);
        self.smart = b(10);
        self
    }
    pub fn to_json(&self) -> Value {
        json!({
            "layout": self.layout, "db": self.db, "xdg": self.xdg,
            "english": self.english, "psugg": self.psugg, "fsugg": self.fsugg,
            "vowel": self.vowel, "chandra": self.chandra, "kar": self.kar, "reph": self.reph,
            "numpad": self.numpad, "karorder": self.karorder, "ansi": self.ansi, "smart": self.smart,
            "reversed_setters": self.reversed_setters, "via_update": self.via_update, "churn": self.churn, "via_switch": self.via_switch
        })
    }
    pub fn from_json(v: &Value) -> Opts {
        let s = |k: &str| v[k].as_str().unwrap_or("").to_string();
        let b = |k: &str| v[k].as_bool().unwrap_or(false);
        Opts {
            layout: s("layout"),
            db: s("db"),
            xdg: s("xdg"),
            english: b("english"),
            psugg: b("psugg"),
            fsugg: b("fsugg"),
            vowel: b("vowel"),
            chandra: b("chandra"),
            kar: b("kar"),
            reph: b("reph"),
            numpad: b("numpad"),
            karorder: b("karorder"),
            ansi: b("ansi"),
            smart: b("smart"),
            reversed_setters: b("reversed_setters"),
            via_update: b("via_update"),
            churn: b("churn"),
            via_switch: b("via_switch"),
        }
    }
    /// Short label of the boolean options for evidence/feature strings.
    pub fn flags(&self) -> String {
        let mut s = String::new();
        for (on, name) in [
            (self.english, "english"),
            (self.psugg, "psugg"),
            (self.fsugg, "fsugg"),
            (self.vowel, "vowel"),
            (self.chandra, "chandra"),
            (self.kar, "kar"),
            (self.reph, "reph"),
            (self.numpad, "numpad"),
            (self.karorder, "karorder"),
            (self.ansi, "ansi"),
            (self.smart, "smart"),
        ] {
            if on {
                if !s.is_empty() {
                    s.push('+');
                }
                s.push_str(name);
            }
        }
        if s.is_empty() {
            s.push_str("none");
        }
        if self.via_update {
            s.push_str("+(re-configured)");
        }
        if self.churn {
            s.push_str("+(used Config object)");
        }
        if self.via_switch {
            s.push_str("+(switched from the other method)");
        }
        s
    }

    /// Build the real `Config` through the exported C symbols. `XDG_DATA_HOME` is read by
    /// `Config::default()`, so "set env -> riti_config_new" is serialised.
    pub fn to_config(&self) -> Config {
        static ENV_LOCK: Mutex<()> = Mutex::new(());
        let layout = CString::new(self.layout.clone()).unwrap();
        let db = CString::new(self.db.clone()).unwrap();
        unsafe {
            let ptr = {
                let _g = ENV_LOCK.lock().unwrap_or_else(|e| e.into_inner());
                std::env::set_var("XDG_DATA_HOME", &self.xdg);
                riti_config_new()
            };
            assert!(
                riti_config_set_layout_file(ptr, layout.as_ptr()),
                "layout rejected: {}",
                self.layout
            );
            if !self.db.is_empty() {
                assert!(
                    riti_config_set_database_dir(ptr, db.as_ptr()),
                    "database dir rejected: {}",
                    self.db
                );
            }
            if self.churn {
                riti_config_set_suggestion_include_english(ptr, !self.english);
                riti_config_set_phonetic_suggestion(ptr, !self.psugg);
                riti_config_set_fixed_suggestion(ptr, !self.fsugg);
                riti_config_set_fixed_auto_vowel(ptr, !self.vowel);
                riti_config_set_fixed_auto_chandra(ptr, !self.chandra);
                riti_config_set_fixed_traditional_kar(ptr, !self.kar);
                riti_config_set_fixed_old_reph(ptr, !self.reph);
                riti_config_set_fixed_numpad(ptr, !self.numpad);
                riti_config_set_fixed_old_kar_order(ptr, !self.karorder);
                riti_config_set_ansi_encoding(ptr, !self.ansi);
                riti_config_set_smart_quote(ptr, !self.smart);
            }
            let setters: [&dyn Fn(); 11] = [
                &|| riti_config_set_suggestion_include_english(ptr, self.english),
                &|| riti_config_set_phonetic_suggestion(ptr, self.psugg),
                &|| riti_config_set_fixed_suggestion(ptr, self.fsugg),
                &|| riti_config_set_fixed_auto_vowel(ptr, self.vowel),
                &|| riti_config_set_fixed_auto_chandra(ptr, self.chandra),
                &|| riti_config_set_fixed_traditional_kar(ptr, self.kar),
                &|| riti_config_set_fixed_old_reph(ptr, self.reph),
                &|| riti_config_set_fixed_numpad(ptr, self.numpad),
                &|| riti_config_set_fixed_old_kar_order(ptr, self.karorder),
                &|| riti_config_set_ansi_encoding(ptr, self.ansi),
                &|| riti_config_set_smart_quote(ptr, self.smart),
            ];
            if self.reversed_setters {
                for f in setters.iter().rev() {
                    f();
                }
            } else {
                for f in setters.iter() {
                    f();
                }
            }
            let cfg = (*ptr).clone();
            riti_config_free(ptr);
            cfg
        }
    }
}

pub const FLAG_NAMES: [&str; 11] = [
    "english", "psugg", "fsugg", "vowel", "chandra", "kar", "reph", "numpad", "karorder", "ansi",
    "smart",
];

/// A panic caught at the API boundary (== an abort at the C ABI).
#[derive(Clone, Debug)]
pub struct Panic {
    pub msg: String,
    /// source file of the panic location (no line number, so unrelated edits do not move it)
    pub file: String,
    pub line: u32,
}

impl Panic {
    pub fn short(&self) -> String {
        format!("{} @ {}", self.msg, self.file)
    }
}

thread_local! {
    static LAST_PANIC: RefCell<Option<Panic>> = const { RefCell::new(None) };
    /// > 0 while the thread is inside `guard` (a panic there belongs to the code under test and is recorded silently)
    static IN_GUARD: std::cell::Cell<u32> = const { std::cell::Cell::new(0) };
}

/// Install a silent panic hook that records message and location per thread.
pub fn install_panic_hook() {
    std::panic::set_hook(Box::new(|info| {
        let msg = if let Some(s) = info.payload().downcast_ref::<&str>() {
            s.to_string()
        } else if let Some(s) = info.payload().downcast_ref::<String>() {
            s.clone()
        } else {
            "<non-string panic>".to_string()
        };
        let (file, line) = info
            .location()
            .map(|l| (l.file().to_string(), l.line()))
            .unwrap_or_default();
        // strip registry / repo prefixes so the file name is stable
        let file = file
            .rsplit_once("/registry/src/")
            .map(|(_, r)| r.split_once('/').map(|(_, r)| r.to_string()).unwrap_or(r.to_string()))
            .unwrap_or(file);
        let file = file.strip_prefix(&format!("{}/", repo_root())).map(|s| s.to_string()).unwrap_or(file);
        // first line of the message only, and strip volatile numbers inside it
        let msg = msg.lines().next().unwrap_or("").to_string();
        if IN_GUARD.with(|g| g.get()) == 0 {
            // a panic of the harness itself: say where (it ends the run as a machinery error)
            eprintln!("harness panic: {} @ {}:{}", msg, file, line);
        }
        LAST_PANIC.with(|p| *p.borrow_mut() = Some(Panic { msg, file, line }));
    }));
}

pub fn guard<T>(f: impl FnOnce() -> T) -> Result<T, Panic> {
    IN_GUARD.with(|g| g.set(g.get() + 1));
    let r = catch_unwind(AssertUnwindSafe(f));
    IN_GUARD.with(|g| g.set(g.get() - 1));
    match r {
        Ok(v) => Ok(v),
        Err(_) => Err(LAST_PANIC.with(|p| p.borrow_mut().take()).unwrap_or(Panic {
            msg: "<panic without hook record>".into(),
            file: String::new(),
            line: 0,
        })),
    }
}

/// A `Suggestion` read out completely through its public accessors.
#[derive(Clone, Debug, PartialEq, Eq, Hash)]
pub enum Rend {
    /// lonely and empty
    Empty,
    Single { text: String, pre: String },
    Full { aux: String, items: Vec<String>, sel: usize, pre: Vec<String> },
}

impl Rend {
    pub fn is_empty(&self) -> bool {
        matches!(self, Rend::Empty)
    }
    pub fn items(&self) -> &[String] {
        match self {
            Rend::Full { items, .. } => items,
            _ => &[],
        }
    }
    pub fn len(&self) -> usize {
        self.items().len()
    }
    pub fn sel(&self) -> usize {
        match self {
            Rend::Full { sel, .. } => *sel,
            _ => 0,
        }
    }
    /// The composed text a front-end would show as pre-edit by default.
    pub fn text(&self) -> String {
        match self {
            Rend::Empty => String::new(),
            Rend::Single { text, .. } => text.clone(),
            Rend::Full { aux, .. } => aux.clone(),
        }
    }
    pub fn to_json(&self) -> Value {
        match self {
            Rend::Empty => json!("empty"),
            Rend::Single { text, pre } => json!({"single": text, "pre": pre}),
            Rend::Full { aux, items, sel, pre } => {
                json!({"aux": aux, "items": items, "sel": sel, "pre": pre})
            }
        }
    }
    /// Same rendering without the pre-edit strings (for comparisons across ANSI settings).
    pub fn without_pre(&self) -> Rend {
        match self {
            Rend::Empty => Rend::Empty,
            Rend::Single { text, .. } => Rend::Single { text: text.clone(), pre: String::new() },
            Rend::Full { aux, items, sel, .. } => {
                Rend::Full { aux: aux.clone(), items: items.clone(), sel: *sel, pre: vec![] }
            }
        }
    }
}

/// What went wrong while reading a suggestion out.
#[derive(Clone, Debug)]
pub enum ReadErr {
    /// accessor panicked
    Panic { what: String, index: usize, panic: Panic, items: Vec<String> },
}

/// Read a suggestion through every public accessor. `with_pre`: also read the pre-edit text
/// of every index (costly with ANSI on).
pub fn render(s: &Suggestion, with_pre: bool) -> Result<Rend, ReadErr> {
    let err = |what: &str, index: usize, panic: Panic, items: &[String]| ReadErr::Panic {
        what: what.into(),
        index,
        panic,
        items: items.to_vec(),
    };
    if s.is_lonely() {
        let text = guard(|| s.get_lonely_suggestion().to_string())
            .map_err(|p| err("get_lonely_suggestion", 0, p, &[]))?;
        if s.is_empty() {
            return Ok(Rend::Empty);
        }
        let pre = if with_pre {
            guard(|| s.get_pre_edit_text(0).to_string())
                .map_err(|p| err("get_pre_edit_text", 0, p, &[text.clone()]))?
        } else {
            String::new()
        };
        Ok(Rend::Single { text, pre })
    } else {
        let len = guard(|| s.len()).map_err(|p| err("len", 0, p, &[]))?;
        let items: Vec<String> = guard(|| s.get_suggestions().to_vec())
            .map_err(|p| err("get_suggestions", 0, p, &[]))?;
        let _ = len;
        let aux = guard(|| s.get_auxiliary_text().to_string())
            .map_err(|p| err("get_auxiliary_text", 0, p, &items))?;
        let sel = guard(|| s.previously_selected_index())
            .map_err(|p| err("previously_selected_index", 0, p, &items))?;
        let mut pre = Vec::new();
        if with_pre {
            for i in 0..items.len() {
                pre.push(
                    guard(|| s.get_pre_edit_text(i).to_string())
                        .map_err(|p| err("get_pre_edit_text", i, p, &items))?,
                );
            }
        }
        Ok(Rend::Full { aux, items, sel, pre })
    }
}

/// One event of the public API.
#[derive(Clone, Debug, PartialEq, Eq, Hash)]
pub enum Ev {
    Key { code: u16, m: u8, sel: u8 },
    Bs,
    CtrlBs,
    Commit(usize),
    Finish,
    /// update_engine with the given options
    Update(Box<Opts>),
    /// the method is re-created over the same user directory (what `new_with_config` runs)
    Restart,
}

impl Ev {
    pub fn key(code: u16) -> Ev {
        Ev::Key { code, m: 0, sel: 0 }
    }
    pub fn ch(c: char) -> Ev {
        Ev::Key { code: crate::keys::code_for_char(c).expect("typeable char"), m: 0, sel: 0 }
    }
    pub fn to_json(&self) -> Value {
        match self {
            Ev::Key { code, m, sel } => {
                let k = crate::keys::by_code(*code);
                json!(["key", code, m, sel, k.map(|k| k.name).unwrap_or("?")])
            }
            Ev::Bs => json!(["bs"]),
            Ev::CtrlBs => json!(["ctrlbs"]),
            Ev::Commit(i) => json!(["commit", i]),
            Ev::Finish => json!(["finish"]),
            Ev::Update(o) => json!(["update", o.to_json()]),
            Ev::Restart => json!(["restart"]),
        }
    }
    pub fn from_json(v: &Value) -> Option<Ev> {
        let a = v.as_array()?;
        Some(match a.first()?.as_str()? {
            "key" => Ev::Key {
                code: a.get(1)?.as_u64()? as u16,
                m: a.get(2)?.as_u64()? as u8,
                sel: a.get(3)?.as_u64()? as u8,
            },
            "bs" => Ev::Bs,
            "ctrlbs" => Ev::CtrlBs,
            "commit" => Ev::Commit(a.get(1)?.as_u64()? as usize),
            "finish" => Ev::Finish,
            "update" => Ev::Update(Box::new(Opts::from_json(a.get(1)?))),
            "restart" => Ev::Restart,
            _ => return None,
        })
    }
    /// compact human-readable form
    pub fn short(&self) -> String {
        match self {
            Ev::Key { code, m, sel } => {
                let k = crate::keys::by_code(*code);
                let base = match k {
                    Some(k) => match k.ch {
                        Some(c) if !k.numpad => format!("'{}'", c),
                        _ => k.name.to_string(),
                    },
                    None => format!("0x{:04X}", code),
                };
                let mut s = base;
                if *m != 0 {
                    s.push_str(&format!("/m{}", m));
                }
                if *sel != 0 {
                    s.push_str(&format!("/s{}", sel));
                }
                s
            }
            Ev::Bs => "BS".into(),
            Ev::CtrlBs => "C-BS".into(),
            Ev::Commit(i) => format!("commit({})", i),
            Ev::Finish => "finish".into(),
            Ev::Update(o) => format!("update[{}]", o.flags()),
            Ev::Restart => "restart".into(),
        }
    }
}

pub fn hist_short(h: &[Ev]) -> String {
    h.iter().map(|e| e.short()).collect::<Vec<_>>().join(" ")
}

/// Result of applying one event.
#[derive(Clone, Debug)]
pub enum Out {
    /// key / backspace: the rendered suggestion
    Sugg(Rend),
    /// commit / finish / update / restart
    Unit,
}

#[derive(Clone, Debug)]
pub enum Fail {
    /// the engine call itself panicked
    CallPanic(Panic),
    /// reading the returned suggestion panicked
    Read(ReadErr),
    /// the call took longer than the watchdog allows
    Slow(f64),
}

/// A call is "slow" when it burns more than this much CPU time of its own thread (not wall time: the
/// sandbox may be paused or heavily loaded, which is nobody's unbounded blow-up).
pub const SLOW_S: f64 = 2.0;

/// CPU time consumed by the calling thread, in seconds.
pub fn thread_cpu_s() -> f64 {
    let mut ts = libc::timespec { tv_sec: 0, tv_nsec: 0 };
    unsafe {
        libc::clock_gettime(libc::CLOCK_THREAD_CPUTIME_ID, &mut ts);
    }
    ts.tv_sec as f64 + ts.tv_nsec as f64 * 1e-9
}

/// Ticks of the watchdog thread (one per second of its own sleeping). Hang detection counts ticks, not
/// wall time, so a paused sandbox (snapshot) does not look like a call that never returns.
pub static TICK: std::sync::atomic::AtomicU64 = std::sync::atomic::AtomicU64::new(0);

/// What a context is doing right now, readable by the watchdog thread (a call that never
/// returns) and, in journal mode, persisted before every call (a call that kills the process).
pub struct Journal {
    pub opts: Opts,
    /// fixed-method state set through the restore hook before `since` (buffer, typed, pending)
    pub origin: Option<(String, String, u8)>,
    /// events applied since the method was last re-created / restored / a word ended
    pub since: Vec<Ev>,
    /// watchdog tick at which the running call started
    pub started: Option<u64>,
    pub id: usize,
}

impl Journal {
    pub fn to_json(&self, property: &str, kind: &str, detail: &str) -> Value {
        json!({
            "property": property, "kind": kind, "class": kind,
            "features": {"flags": self.opts.flags(), "history": hist_short(&self.since)},
            "opts": self.opts.to_json(),
            "origin": self.origin.as_ref().map(|(b, t, p)| json!({"buffer": b, "typed": t, "pending_kar": p})),
            "files": {},
            "events": self.since.iter().map(|e| e.to_json()).collect::<Vec<_>>(),
            "history": hist_short(&self.since),
            "detail": detail,
        })
    }
}

pub static REGISTRY: Mutex<Vec<Weak<Mutex<Journal>>>> = Mutex::new(Vec::new());
static NEXT_ID: std::sync::atomic::AtomicUsize = std::sync::atomic::AtomicUsize::new(0);

/// directory for the crash journal (set by `bin/check` only when a run died abnormally)
pub fn journal_dir() -> Option<&'static str> {
    static DIR: std::sync::OnceLock<Option<String>> = std::sync::OnceLock::new();
    DIR.get_or_init(|| std::env::var("VERIF_JOURNAL").ok().filter(|s| !s.is_empty())).as_deref()
}

pub const HANG_TICKS: u64 = 30;

/// A real context plus the options it was created with.
pub struct Ctx {
    pub ctx: RitiContext,
    pub opts: Opts,
    /// the options the context was created with (`opts` follows update-engine events)
    pub created: Opts,
    pub with_pre: bool,
    pub journal: Arc<Mutex<Journal>>,
}

impl Ctx {
    /// `RitiContext::new_with_config` under catch_unwind.
    /// the real context for `opts` (`new_with_config`, or - `via_update` - created with every option inverted and re-configured)
    fn make(opts: &Opts) -> Result<RitiContext, Panic> {
        let cfg = opts.to_config();
        let ctx = if opts.via_update {
            let mut inv = opts.clone();
            inv.via_update = false;
            for b in [&mut inv.english, &mut inv.psugg, &mut inv.fsugg, &mut inv.vowel, &mut inv.chandra, &mut inv.kar, &mut inv.reph, &mut inv.numpad, &mut inv.karorder, &mut inv.ansi, &mut inv.smart] {
                *b = !*b;
            }
            let cfg0 = inv.to_config();
            guard(|| {
                let mut c = RitiContext::new_with_config(&cfg0);
                // a used context: one word (an emoji name in phonetic mode) composed and ended under the old options
                for ch in "help".chars() {
                    let _ = c.get_suggestion_for_key(crate::keys::code_for_char(ch).unwrap(), 0, 0);
                }
                c.finish_input_session();
                c.update_engine(&cfg);
                c
            })?
        } else if opts.via_switch {
            let mut other = opts.clone();
            other.via_switch = false;
            other.layout = if opts.is_phonetic() { probhat() } else { PHONETIC.to_string() };
            let cfg0 = other.to_config();
            guard(|| {
                let mut c = RitiContext::new_with_config(&cfg0);
                for ch in "help".chars() {
                    let _ = c.get_suggestion_for_key(crate::keys::code_for_char(ch).unwrap(), 0, 0);
                }
                c.finish_input_session();
                c.update_engine(&cfg);
                c
            })?
        } else {
            guard(|| RitiContext::new_with_config(&cfg))?
        };
        Ok(ctx)
    }
    pub fn new(opts: &Opts) -> Result<Ctx, Panic> {
        let ctx = Ctx::make(opts)?;
        let journal = Arc::new(Mutex::new(Journal {
            opts: opts.clone(),
            origin: None,
            since: vec![],
            started: None,
            id: NEXT_ID.fetch_add(1, std::sync::atomic::Ordering::Relaxed),
        }));
        {
            let mut reg = REGISTRY.lock().unwrap();
            reg.retain(|w| w.strong_count() > 0);
            reg.push(Arc::downgrade(&journal));
        }
        Ok(Ctx { ctx, opts: opts.clone(), created: opts.clone(), with_pre: true, journal })
    }

    pub fn apply(&mut self, ev: &Ev) -> Result<Out, Fail> {
        {
            let mut j = self.journal.lock().unwrap();
            if j.since.len() >= 4096 {
                j.since.clear();
            }
            j.since.push(ev.clone());
            j.started = Some(TICK.load(std::sync::atomic::Ordering::Relaxed));
            if let Some(dir) = journal_dir() {
                let prop = std::env::args().nth(1).unwrap_or_default().to_uppercase();
                let _ = std::fs::write(format!("{}/{}.json", dir, j.id), j.to_json(&prop, "abort", "the process died during the last event of this history").to_string());
            }
        }
        let r = self.apply_inner(ev);
        {
            let mut j = self.journal.lock().unwrap();
            j.started = None;
            if matches!(ev, Ev::Finish | Ev::Commit(_) | Ev::CtrlBs) && !matches!(r, Err(_)) && j.origin.is_none() && j.since.len() > 256 {
                // long-running walkers: keep the journal short (the composition restarts here)
                j.since.clear();
            }
            if let Ev::Update(o) = ev {
                j.opts = (**o).clone();
            }
        }
        r
    }

    fn apply_inner(&mut self, ev: &Ev) -> Result<Out, Fail> {
        let t = thread_cpu_s();
        let r = match ev {
            Ev::Key { code, m, sel } => {
                let s = guard(|| self.ctx.get_suggestion_for_key(*code, *m, *sel))
                    .map_err(Fail::CallPanic)?;
                Out::Sugg(render(&s, self.with_pre).map_err(Fail::Read)?)
            }
            Ev::Bs => {
                let s = guard(|| self.ctx.backspace_event(false)).map_err(Fail::CallPanic)?;
                Out::Sugg(render(&s, self.with_pre).map_err(Fail::Read)?)
            }
            Ev::CtrlBs => {
                let s = guard(|| self.ctx.backspace_event(true)).map_err(Fail::CallPanic)?;
                Out::Sugg(render(&s, self.with_pre).map_err(Fail::Read)?)
            }
            Ev::Commit(i) => {
                guard(|| self.ctx.candidate_committed(*i)).map_err(Fail::CallPanic)?;
                Out::Unit
            }
            Ev::Finish => {
                guard(|| self.ctx.finish_input_session()).map_err(Fail::CallPanic)?;
                Out::Unit
            }
            Ev::Update(o) => {
                let cfg = o.to_config();
                guard(|| self.ctx.update_engine(&cfg)).map_err(Fail::CallPanic)?;
                self.opts = (**o).clone();
                Out::Unit
            }
            Ev::Restart => {
                guard(|| self.ctx.verif_reset_method()).map_err(Fail::CallPanic)?;
                Out::Unit
            }
        };
        let dt = thread_cpu_s() - t;
        if dt > SLOW_S {
            return Err(Fail::Slow(dt));
        }
        Ok(r)
    }

    /// key press, expecting a suggestion
    pub fn key(&mut self, code: u16, m: u8, sel: u8) -> Result<Rend, Fail> {
        match self.apply(&Ev::Key { code, m, sel })? {
            Out::Sugg(r) => Ok(r),
            Out::Unit => unreachable!(),
        }
    }
    pub fn ch(&mut self, c: char) -> Result<Rend, Fail> {
        self.key(crate::keys::code_for_char(c).expect("typeable"), 0, 0)
    }
    pub fn bs(&mut self) -> Result<Rend, Fail> {
        match self.apply(&Ev::Bs)? {
            Out::Sugg(r) => Ok(r),
            Out::Unit => unreachable!(),
        }
    }
    pub fn ongoing(&self) -> bool {
        self.ctx.ongoing_input_session()
    }
    pub fn snapshot(&self, level: u8) -> String {
        self.ctx.verif_snapshot(level)
    }
    pub fn snapshot_json(&self, level: u8) -> Value {
        serde_json::from_str(&self.snapshot(level)).expect("snapshot is JSON")
    }
    /// fresh method over the same config and user directory (re-reads user files)
    pub fn reset(&mut self) -> Result<(), Panic> {
        {
            let mut j = self.journal.lock().unwrap();
            j.since.clear();
            j.origin = None;
        }
        if self.opts != self.created {
            // a history re-configured the context: start again from a context created with the original options
            self.ctx = Ctx::make(&self.created)?;
            self.opts = self.created.clone();
            self.journal.lock().unwrap().opts = self.created.clone();
            return Ok(());
        }
        guard(|| self.ctx.verif_reset_method())
    }
    pub fn set_fixed(&self, buffer: &str, typed: &str, pending: u8) {
        {
            let mut j = self.journal.lock().unwrap();
            j.since.clear();
            match &mut j.origin {
                Some((b, t, p)) => {
                    b.clear();
                    b.push_str(buffer);
                    t.clear();
                    t.push_str(typed);
                    *p = pending;
                }
                None => j.origin = Some((buffer.to_string(), typed.to_string(), pending)),
            }
        }
        assert!(self.ctx.verif_set_composition(buffer, typed, pending), "not a fixed method");
    }
}

/// Per-worker scratch directory under /verif/.build/run/<pid>/<name>; returns the XDG value.
pub fn scratch_xdg(name: &str) -> String {
    let p = PathBuf::from(format!("{}/.build/run/{}/{}", verif_root(), std::process::id(), name));
    let _ = std::fs::remove_dir_all(&p);
    std::fs::create_dir_all(p.join("openbangla-keyboard")).expect("create scratch dir");
    p.to_string_lossy().to_string()
}

pub fn cleanup_scratch() {
    let p = PathBuf::from(format!("{}/.build/run/{}", verif_root(), std::process::id()));
    let _ = std::fs::remove_dir_all(p);
}

/// Remove both user files of an options' user directory.
pub fn clear_user_files(o: &Opts) {
    let _ = std::fs::remove_file(o.selection_file());
    let _ = std::fs::remove_file(o.user_autocorrect_file());
}
