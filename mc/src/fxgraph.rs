//! Explicit-state BFS over the *real* fixed-layout method.
//!
//! A state is the complete mutable state of `FixedMethod` as reported by the snapshot hook
//! (`buffer`, `typed`, `pending_kar`; the scratch list is empty because dictionary
//! suggestions are off in these searches). A transition restores a state with the
//! `verif_set_composition` hook, applies one real API event and reads the state back. Two
//! histories are merged only when the full real state is equal, so merged states have the
//! same futures (the method is deterministic and has no other mutable field).

use crate::drv::{Ctx, Ev, Fail, Out};
use std::collections::HashSet;

#[derive(Clone, Debug, PartialEq, Eq, Hash)]
pub struct FxState {
    pub buf: String,
    pub typed: String,
    /// 0 none, 1 ি, 2 ে, 3 ৈ
    pub pending: u8,
}

impl FxState {
    pub fn idle() -> FxState {
        FxState { buf: String::new(), typed: String::new(), pending: 0 }
    }
    pub fn len(&self) -> usize {
        self.buf.chars().count() + (self.pending != 0) as usize
    }
    pub fn is_idle(&self) -> bool {
        self.buf.is_empty() && self.pending == 0 && self.typed.is_empty()
    }
}

pub fn read_state(ctx: &Ctx) -> FxState {
    let (buf, typed, pending) = ctx.ctx.verif_fixed_state().expect("fixed method");
    FxState { buf, typed, pending }
}

pub fn restore(ctx: &Ctx, s: &FxState) {
    ctx.set_fixed(&s.buf, &s.typed, s.pending);
}

#[derive(Default, Clone, Debug)]
pub struct GraphStats {
    pub states: u64,
    pub transitions: u64,
    pub cut_transitions: u64,
    pub max_depth: usize,
    pub closed: bool,
    pub failed_transitions: u64,
}

impl GraphStats {
    pub fn merge(&mut self, o: &GraphStats) {
        self.states += o.states;
        self.transitions += o.transitions;
        self.cut_transitions += o.cut_transitions;
        self.max_depth = self.max_depth.max(o.max_depth);
        self.failed_transitions += o.failed_transitions;
    }
}

/// One explored transition handed to the visitor.
pub struct Step<'a> {
    pub pre: &'a FxState,
    /// index into the alphabet
    pub sym: usize,
    pub ev: &'a Ev,
    pub out: &'a Result<Out, Fail>,
    /// real state after the event (pre-state again when the call panicked)
    pub post: &'a FxState,
    /// alphabet indices of a shortest history reaching `pre`
    pub hist: &'a [u8],
    pub ongoing_after: bool,
}

/// Sequential BFS. `max_len`: states whose composition is longer are not expanded (their
/// incoming transition is still executed, checked and counted as cut). `max_depth`: safety
/// bound on the number of levels (the graph is *closed* when the frontier empties earlier).
pub fn bfs(
    ctx: &mut Ctx,
    alphabet: &[Ev],
    max_len: usize,
    max_depth: usize,
    mut visit: impl FnMut(&mut Ctx, &Step),
) -> GraphStats {
    assert!(alphabet.len() < 256);
    let mut seen: HashSet<FxState> = HashSet::new();
    let mut frontier: Vec<(FxState, Vec<u8>)> = vec![(FxState::idle(), vec![])];
    seen.insert(FxState::idle());
    let mut st = GraphStats { states: 1, ..Default::default() };
    let mut depth = 0;
    while !frontier.is_empty() && depth < max_depth {
        let mut next: Vec<(FxState, Vec<u8>)> = Vec::new();
        for (pre, hist) in &frontier {
            for (sym, ev) in alphabet.iter().enumerate() {
                restore(ctx, pre);
                let out = ctx.apply(ev);
                st.transitions += 1;
                let failed = out.is_err();
                if failed {
                    st.failed_transitions += 1;
                }
                let post = read_state(ctx);
                let ongoing_after = ctx.ongoing();
                visit(ctx, &Step { pre, sym, ev, out: &out, post: &post, hist, ongoing_after });
                if failed {
                    continue;
                }
                // the raw key buffer can grow while the composition does not (a waiting sign
                // replaced by another one): bound it as well so the graph stays finite
                if post.len() > max_len || post.typed.chars().count() > max_len + 1 {
                    st.cut_transitions += 1;
                    continue;
                }
                if !seen.contains(&post) {
                    seen.insert(post.clone());
                    st.states += 1;
                    let mut h = hist.clone();
                    h.push(sym as u8);
                    next.push((post, h));
                }
            }
        }
        frontier = next;
        depth += 1;
        if !frontier.is_empty() {
            st.max_depth = depth;
        }
    }
    st.closed = frontier.is_empty();
    st
}

pub fn hist_events(alphabet: &[Ev], hist: &[u8]) -> Vec<Ev> {
    hist.iter().map(|&i| alphabet[i as usize].clone()).collect()
}
