//! Boring reference models for the fixed-layout composition rules, written from the
//! property statements (C12, C13) — not from the code. Compared with the implementation on
//! every explored transition.

use crate::bn::*;
use crate::drv::Opts;

#[derive(Debug, Clone, PartialEq, Eq)]
pub enum RefOut {
    /// the statement defines the resulting text
    Text(String),
    /// the statement defines no result for this (state, value) pair
    Unspecified(&'static str),
    /// reph key on a text outside the syllable grammar: only conservation is required
    RephConservation,
}

fn last(p: &str) -> Option<char> {
    p.chars().last()
}
fn drop_last(p: &str) -> String {
    let mut s = p.to_string();
    s.pop();
    s
}

/// C12: effect of a key whose layout value is `value` on composed text `p`, old vowel-sign
/// order OFF. Rules in the statement's priority order, otherwise plain appending.
pub fn fixed_step_ref(p: &str, value: &str, o: &Opts) -> RefOut {
    assert!(!o.karorder);
    let rmc = last(p);
    // zo-fola after a bare ra gets a joiner in front
    if value == ZOFOLA {
        let mut it = p.chars().rev();
        let l1 = it.next();
        let l2 = it.next();
        if l1 == Some(RA) && l2 != Some(HASANTA) {
            return RefOut::Text(format!("{}{}{}", p, ZWJ, value));
        }
        return RefOut::Text(format!("{}{}", p, value));
    }
    // reph key with old-style reph: C13's rule
    if value == REPH && o.reph {
        return match reph_ref(p) {
            Some(t) => RefOut::Text(t),
            None => RefOut::RephConservation,
        };
    }
    let Some(c) = value.chars().next() else {
        return RefOut::Text(p.to_string());
    };
    let single = value.chars().count() == 1;
    if is_sign(c) {
        if !single {
            // the statement speaks of "a vowel sign typed"; a multi-code-point value that merely
            // starts with a sign is only required (C04) to be emitted completely when no rule fires
            return RefOut::Unspecified("multi-code-point value starting with a vowel sign");
        }
        let after_vowel = rmc.map_or(false, |r| is_indep_vowel(r) || is_common_sign(r));
        let after_punct = rmc.map_or(false, |r| r.is_ascii_punctuation());
        if o.vowel && (p.is_empty() || after_vowel || after_punct) {
            return match indep_for_sign(c) {
                Some(v) => RefOut::Text(format!("{}{}", p, v)),
                // VOWEL SIGN VOCALIC RR -> LETTER VOCALIC RR (finding F18)
                None if c == '\u{09C4}' => RefOut::Text(format!("{}\u{09E0}", p)),
                None => RefOut::Unspecified("rare sign has no matching independent vowel"),
            };
        }
        if o.vowel && rmc.map_or(false, is_rare_sign) {
            return RefOut::Unspecified("auto vowel after a rare sign");
        }
        if o.chandra && rmc == Some(CHANDRA) {
            if matches!(c, '\u{09E2}' | '\u{09E3}') {
                // the engine does not count the vocalic L / LL signs among the vowel signs; the statement does not name them
                return RefOut::Unspecified("vocalic L / LL sign after chandrabindu");
            }
            return RefOut::Text(format!("{}{}{}", drop_last(p), c, CHANDRA));
        }
        if rmc == Some(HASANTA) {
            return match indep_for_sign(c) {
                Some(v) => RefOut::Text(format!("{}{}", drop_last(p), v)),
                // VOWEL SIGN VOCALIC RR has its independent vowel too (LETTER VOCALIC RR); finding F18
                None if c == '\u{09C4}' => RefOut::Text(format!("{}\u{09E0}", drop_last(p))),
                None => RefOut::Unspecified("rare sign has no matching independent vowel"),
            };
        }
        if o.kar && rmc.map_or(false, is_consonant) && is_ligature_sign(c) {
            return RefOut::Text(format!("{}{}{}", p, ZWNJ, c));
        }
        return RefOut::Text(format!("{}{}", p, c));
    }
    if c == HASANTA && rmc == Some(HASANTA) {
        if !single {
            return RefOut::Unspecified("multi-code-point value starting with hasanta after hasanta");
        }
        return RefOut::Text(format!("{}{}", p, ZWNJ));
    }
    if c == AU_MARK && rmc == Some(HASANTA) {
        if !single {
            return RefOut::Unspecified("multi-code-point value starting with the AU length mark");
        }
        return RefOut::Text(format!("{}{}", drop_last(p), '\u{0994}'));
    }
    RefOut::Text(format!("{}{}", p, value))
}

/// Is `p` orthographically well formed in the sense of C13's placement clause?
/// `(C(hasanta C)* [sign] [chandrabindu] | I [chandrabindu] | other)*`
pub fn well_formed(p: &str) -> bool {
    let cs: Vec<char> = p.chars().collect();
    let mut i = 0;
    while i < cs.len() {
        let c = cs[i];
        if is_consonant(c) {
            i += 1;
            while i + 1 < cs.len() && cs[i] == HASANTA && is_consonant(cs[i + 1]) {
                i += 2;
            }
            if i < cs.len() && is_common_sign(cs[i]) {
                i += 1;
            }
            if i < cs.len() && cs[i] == CHANDRA {
                i += 1;
            }
        } else if is_indep_vowel(c) {
            i += 1;
            if i < cs.len() && cs[i] == CHANDRA {
                i += 1;
            }
        } else if c == HASANTA || is_sign(c) || c == CHANDRA || c == ZWJ || c == ZWNJ || c == AU_MARK
        {
            return false; // dangling mark or joiner: outside the grammar
        } else if is_bengali_block(c) && !(c == ANUSVARA || c == '\u{0983}' || ('\u{09E6}'..='\u{09EF}').contains(&c)) {
            // other rare Bengali letters/signs (nukta, avagraha, vocalic RR, currency ...): outside
            return false;
        } else {
            i += 1;
        }
    }
    true
}

/// C13 placement clause: for well-formed `p`, the text after pressing the reph key with
/// old-style reph on. `None` when `p` is outside the grammar.
pub fn reph_ref(p: &str) -> Option<String> {
    if !well_formed(p) {
        return None;
    }
    let cs: Vec<char> = p.chars().collect();
    let mut end = cs.len();
    if end > 0 && cs[end - 1] == CHANDRA {
        end -= 1;
    }
    if end > 0 && (is_common_sign(cs[end - 1]) || is_indep_vowel(cs[end - 1])) {
        end -= 1;
    }
    // final conjunct: C (hasanta C)* ending exactly at `end`
    let mut pos = cs.len();
    if end > 0 && is_consonant(cs[end - 1]) {
        let mut start = end - 1;
        while start >= 2 && cs[start - 1] == HASANTA && is_consonant(cs[start - 2]) {
            start -= 2;
        }
        pos = start;
    }
    let mut out: String = cs[..pos].iter().collect();
    out.push_str(REPH);
    out.extend(cs[pos..].iter());
    Some(out)
}

/// C13 conservation clause: `q` equals `p` with `ins` inserted at exactly one position.
pub fn is_single_insertion(p: &str, q: &str, ins: &str) -> bool {
    if q.len() != p.len() + ins.len() {
        return false;
    }
    let mut idxs: Vec<usize> = p.char_indices().map(|(i, _)| i).collect();
    idxs.push(p.len());
    idxs.iter().any(|&i| q.starts_with(&p[..i]) && q[i..].starts_with(ins) && q[i + ins.len()..] == p[i..])
}
