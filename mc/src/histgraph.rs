//! Breadth-first search over *event histories* of a real context (used for the phonetic
//! method, whose state — memo, learned selections, files — cannot be restored by a setter).
//!
//! A state is re-entered by: delete the user files, write the initial files, re-create the
//! method (`verif_reset_method`, i.e. the line `new_with_config` runs) and replay the
//! (shortest) history. Two histories are merged only when the level-2 snapshot of the real
//! method (buffer, preselection, learned map, full memo contents, user auto-correct, scratch
//! list) and the bytes of the selection file are equal.

use crate::drv::{Ctx, Ev, Fail, Out, Rend};
use crate::par::par_for;
use std::collections::{BTreeMap, HashSet};
use std::sync::atomic::{AtomicU64, Ordering};
use std::sync::Mutex;

pub fn h128(s: &[u8]) -> u128 {
    let mut a: u64 = 0xcbf29ce484222325;
    let mut b: u64 = 0x9E3779B97F4A7C15;
    for &x in s {
        a = (a ^ x as u64).wrapping_mul(0x100000001b3);
        b = (b.rotate_left(5) ^ x as u64).wrapping_mul(0xff51afd7ed558ccd);
    }
    ((a as u128) << 64) | b as u128
}

/// Bring `ctx` to the start state: user files removed / set to `files`, method re-created.
pub fn fresh(ctx: &mut Ctx, files: &BTreeMap<String, String>) -> Result<(), crate::drv::Panic> {
    crate::drv::clear_user_files(&ctx.opts);
    for (name, content) in files {
        std::fs::write(ctx.opts.user_dir().join(name), content).expect("write user file");
    }
    ctx.reset()
}

/// What replaying a history produced.
pub struct Replayed {
    /// the list/string a front-end is currently showing (result of the last key/backspace
    /// event since the last terminating event), if any
    pub shown: Option<Rend>,
    /// number of backspace events since the composition started (for fixed-mode English rule)
    pub failed_at: Option<(usize, Fail)>,
}

/// Replay `hist` from the fresh state. Stops at the first failing event.
pub fn replay(ctx: &mut Ctx, files: &BTreeMap<String, String>, hist: &[Ev]) -> Replayed {
    if let Err(p) = fresh(ctx, files) {
        return Replayed { shown: None, failed_at: Some((0, Fail::CallPanic(p))) };
    }
    let mut shown = None;
    for (i, ev) in hist.iter().enumerate() {
        match ctx.apply(ev) {
            Ok(Out::Sugg(r)) => shown = if r.is_empty() { None } else { Some(r) },
            Ok(Out::Unit) => {
                if !matches!(ev, Ev::Update(_)) || !ctx.ongoing() {
                    shown = None;
                }
            }
            Err(f) => return Replayed { shown, failed_at: Some((i, f)) },
        }
    }
    Replayed { shown, failed_at: None }
}

pub fn state_key(ctx: &Ctx) -> u128 {
    let mut s = ctx.snapshot(2).into_bytes();
    s.push(0);
    if let Ok(b) = std::fs::read(ctx.opts.selection_file()) {
        // the file's key order is hash-random: canonicalise when it parses, raw bytes otherwise
        match serde_json::from_slice::<BTreeMap<String, serde_json::Value>>(&b) {
            Ok(m) => s.extend(serde_json::to_vec(&m).unwrap()),
            Err(_) => s.extend(b),
        }
    } else {
        s.extend(b"<absent>");
    }
    s.push(0);
    s.extend(ctx.opts.flags().bytes());
    s.extend(ctx.opts.layout.bytes());
    h128(&s)
}

#[derive(Default, Clone, Debug)]
pub struct HistStats {
    pub states: u64,
    pub transitions: u64,
    pub replayed_events: u64,
    pub max_depth: usize,
    pub closed: bool,
    pub failed_transitions: u64,
    pub distinct_outcomes: u64,
}

/// One explored transition.
pub struct HStep<'a> {
    pub hist: &'a [Ev],
    pub ev: &'a Ev,
    /// what the front-end showed before `ev`
    pub shown_before: Option<&'a Rend>,
    pub out: &'a Result<Out, Fail>,
    pub ongoing_before: bool,
}

/// Level-synchronous parallel BFS over histories.
///
/// * `make_ctx(worker)` — a real context per worker (own user directory)
/// * `enabled(hist, shown, ctx)` — events to try in the state reached by `hist`
/// * `visit(ctx, step)` — oracle, called with the context *in the post state*; it may use the
///   context freely afterwards (the state key is taken before)
/// * `expand(step)` — whether the post state should be explored further
pub fn bfs(
    make_ctx: impl Fn(usize) -> Ctx + Sync,
    files: &BTreeMap<String, String>,
    init: &[Vec<Ev>],
    max_depth: usize,
    enabled: impl Fn(&[Ev], Option<&Rend>, &Ctx) -> Vec<Ev> + Sync,
    visit: impl Fn(&mut Ctx, &HStep) + Sync,
    expand: impl Fn(&HStep) -> bool + Sync,
) -> HistStats {
    bfs_shadow(make_ctx, files, init, max_depth, enabled, visit, expand, |_| String::new())
}

/// Like `bfs`, with a *shadow*: a value the oracle derives from the history alone (e.g. the text a front-end
/// believes is being composed). It is part of the state key, so two histories are merged only when the real
/// state AND the oracle's expectation agree — otherwise a change that makes an event a no-op would have its
/// post-state merged into an older history that carries a different expectation.
#[allow(clippy::too_many_arguments)]
pub fn bfs_shadow(
    make_ctx: impl Fn(usize) -> Ctx + Sync,
    files: &BTreeMap<String, String>,
    init: &[Vec<Ev>],
    max_depth: usize,
    enabled: impl Fn(&[Ev], Option<&Rend>, &Ctx) -> Vec<Ev> + Sync,
    visit: impl Fn(&mut Ctx, &HStep) + Sync,
    expand: impl Fn(&HStep) -> bool + Sync,
    shadow: impl Fn(&[Ev]) -> String + Sync,
) -> HistStats {
    let seen: Vec<Mutex<HashSet<u128>>> = (0..64).map(|_| Mutex::new(HashSet::new())).collect();
    let outcomes: Vec<Mutex<HashSet<u128>>> = (0..64).map(|_| Mutex::new(HashSet::new())).collect();
    // start states: the fresh context plus any given prefix histories (each must replay
    // without failure; failing prefixes are dropped here and reported by the search from []).
    let mut frontier: Vec<Vec<Ev>> = vec![vec![]];
    {
        let mut ctx = make_ctx(usize::MAX);
        let r = replay(&mut ctx, files, &[]);
        if r.failed_at.is_none() {
            let k = state_key(&ctx);
            seen[(k % 64) as usize].lock().unwrap().insert(k);
        }
        for h in init {
            let r = replay(&mut ctx, files, h);
            if r.failed_at.is_some() {
                continue;
            }
            let k = state_key(&ctx);
            if seen[(k % 64) as usize].lock().unwrap().insert(k) {
                frontier.push(h.clone());
            }
        }
    }
    let transitions = AtomicU64::new(0);
    let replayed = AtomicU64::new(0);
    let failed = AtomicU64::new(0);
    let mut st = HistStats { states: frontier.len() as u64, ..Default::default() };
    let mut depth = 0;
    while !frontier.is_empty() && depth < max_depth {
        let next: Mutex<Vec<Vec<Ev>>> = Mutex::new(vec![]);
        par_for(
            frontier.len(),
            1,
            |w| make_ctx(w),
            |ctx, idx| {
                let hist = &frontier[idx];
                let r = replay(ctx, files, hist);
                replayed.fetch_add(hist.len() as u64, Ordering::Relaxed);
                if r.failed_at.is_some() {
                    return; // cannot happen: only non-failing histories are queued
                }
                let evs = enabled(hist, r.shown.as_ref(), ctx);
                let ongoing_before = ctx.ongoing();
                let shown_before = r.shown;
                let mut local_next = vec![];
                for ev in evs {
                    let r2 = replay(ctx, files, hist);
                    replayed.fetch_add(hist.len() as u64 + 1, Ordering::Relaxed);
                    debug_assert!(r2.failed_at.is_none());
                    let out = ctx.apply(&ev);
                    transitions.fetch_add(1, Ordering::Relaxed);
                    let key = {
                        let mut h2 = hist.clone();
                        h2.push(ev.clone());
                        let sh = shadow(&h2);
                        if sh.is_empty() { state_key(ctx) } else { state_key(ctx) ^ h128(sh.as_bytes()).rotate_left(17) }
                    };
                    if let Ok(Out::Sugg(rend)) = &out {
                        let ok = h128(rend.to_json().to_string().as_bytes());
                        outcomes[(ok % 64) as usize].lock().unwrap().insert(ok);
                    }
                    let step = HStep { hist, ev: &ev, shown_before: shown_before.as_ref(), out: &out, ongoing_before };
                    let is_fail = out.is_err();
                    if is_fail {
                        failed.fetch_add(1, Ordering::Relaxed);
                    }
                    let want = !is_fail && expand(&step);
                    visit(ctx, &step);
                    if want {
                        let fresh_state = seen[(key % 64) as usize].lock().unwrap().insert(key);
                        if fresh_state {
                            let mut h = hist.clone();
                            h.push(ev.clone());
                            local_next.push(h);
                        }
                    }
                }
                next.lock().unwrap().extend(local_next);
            },
            |_| (),
        );
        let mut nf = next.into_inner().unwrap();
        // deterministic order regardless of thread scheduling
        nf.sort_by_cached_key(|h| crate::drv::hist_short(h));
        st.states += nf.len() as u64;
        frontier = nf;
        depth += 1;
        if !frontier.is_empty() {
            st.max_depth = depth;
        }
    }
    st.closed = frontier.is_empty();
    st.transitions = transitions.load(Ordering::Relaxed);
    st.replayed_events = replayed.load(Ordering::Relaxed);
    st.failed_transitions = failed.load(Ordering::Relaxed);
    st.distinct_outcomes = outcomes.iter().map(|m| m.lock().unwrap().len() as u64).sum();
    st
}
