//! The 111 key codes published in `include/riti.h`, transcribed once from the header
//! (names and numeric values) together with the ASCII character each key stands for on a
//! US keyboard and the name of the layout-file entry it addresses (`Key_<entry>_<plane>`
//! for the alphanumeric zone, the bare `Num*` name for the number pad).
//!
//! This table is the harness's *own* statement of the published interface: it is not
//! derived from `src/keycodes.rs` or `src/fixed/layout.rs`, which are the code under test.

#[derive(Clone, Copy, Debug)]
pub struct KeyDef {
    pub name: &'static str,
    pub code: u16,
    /// ASCII character of the key (None: keypad Enter / keypad Equals have no text).
    pub ch: Option<char>,
    /// Layout-file entry name (without the `Key_` prefix / `_Normal|_AltGr` suffix).
    pub entry: Option<&'static str>,
    pub numpad: bool,
}

pub const KEYS: &[KeyDef] = &[
    KeyDef { name: "VC_GRAVE", code: 41, ch: Some('`'), entry: Some("Grave"), numpad: false },
    KeyDef { name: "VC_TILDE", code: 1, ch: Some('~'), entry: Some("Tilde"), numpad: false },
    KeyDef { name: "VC_1", code: 2, ch: Some('1'), entry: Some("1"), numpad: false },
    KeyDef { name: "VC_2", code: 3, ch: Some('2'), entry: Some("2"), numpad: false },
    KeyDef { name: "VC_3", code: 4, ch: Some('3'), entry: Some("3"), numpad: false },
    KeyDef { name: "VC_4", code: 5, ch: Some('4'), entry: Some("4"), numpad: false },
    KeyDef { name: "VC_5", code: 6, ch: Some('5'), entry: Some("5"), numpad: false },
    KeyDef { name: "VC_6", code: 7, ch: Some('6'), entry: Some("6"), numpad: false },
    KeyDef { name: "VC_7", code: 8, ch: Some('7'), entry: Some("7"), numpad: false },
    KeyDef { name: "VC_8", code: 9, ch: Some('8'), entry: Some("8"), numpad: false },
    KeyDef { name: "VC_9", code: 10, ch: Some('9'), entry: Some("9"), numpad: false },
    KeyDef { name: "VC_0", code: 11, ch: Some('0'), entry: Some("0"), numpad: false },
    KeyDef { name: "VC_EXCLAIM", code: 59, ch: Some('!'), entry: Some("Exclaim"), numpad: false },
    KeyDef { name: "VC_AT", code: 60, ch: Some('@'), entry: Some("At"), numpad: false },
    KeyDef { name: "VC_HASH", code: 61, ch: Some('#'), entry: Some("Hash"), numpad: false },
    KeyDef { name: "VC_DOLLAR", code: 62, ch: Some('$'), entry: Some("Dollar"), numpad: false },
    KeyDef { name: "VC_PERCENT", code: 63, ch: Some('%'), entry: Some("Percent"), numpad: false },
    KeyDef { name: "VC_CIRCUM", code: 64, ch: Some('^'), entry: Some("Circum"), numpad: false },
    KeyDef { name: "VC_AMPERSAND", code: 65, ch: Some('&'), entry: Some("Ampersand"), numpad: false },
    KeyDef { name: "VC_ASTERISK", code: 66, ch: Some('*'), entry: Some("Asterisk"), numpad: false },
    KeyDef { name: "VC_PAREN_LEFT", code: 67, ch: Some('('), entry: Some("ParenLeft"), numpad: false },
    KeyDef { name: "VC_PAREN_RIGHT", code: 68, ch: Some(')'), entry: Some("ParenRight"), numpad: false },
    KeyDef { name: "VC_UNDERSCORE", code: 87, ch: Some('_'), entry: Some("UnderScore"), numpad: false },
    KeyDef { name: "VC_PLUS", code: 88, ch: Some('+'), entry: Some("Plus"), numpad: false },
    KeyDef { name: "VC_MINUS", code: 12, ch: Some('-'), entry: Some("Minus"), numpad: false },
    KeyDef { name: "VC_EQUALS", code: 13, ch: Some('='), entry: Some("Equals"), numpad: false },
    KeyDef { name: "VC_A", code: 41110, ch: Some('a'), entry: Some("a"), numpad: false },
    KeyDef { name: "VC_B", code: 41111, ch: Some('b'), entry: Some("b"), numpad: false },
    KeyDef { name: "VC_C", code: 41112, ch: Some('c'), entry: Some("c"), numpad: false },
    KeyDef { name: "VC_D", code: 41113, ch: Some('d'), entry: Some("d"), numpad: false },
    KeyDef { name: "VC_E", code: 41114, ch: Some('e'), entry: Some("e"), numpad: false },
    KeyDef { name: "VC_F", code: 41115, ch: Some('f'), entry: Some("f"), numpad: false },
    KeyDef { name: "VC_G", code: 41116, ch: Some('g'), entry: Some("g"), numpad: false },
    KeyDef { name: "VC_H", code: 41117, ch: Some('h'), entry: Some("h"), numpad: false },
    KeyDef { name: "VC_I", code: 41118, ch: Some('i'), entry: Some("i"), numpad: false },
    KeyDef { name: "VC_J", code: 41119, ch: Some('j'), entry: Some("j"), numpad: false },
    KeyDef { name: "VC_K", code: 41120, ch: Some('k'), entry: Some("k"), numpad: false },
    KeyDef { name: "VC_L", code: 41121, ch: Some('l'), entry: Some("l"), numpad: false },
    KeyDef { name: "VC_M", code: 41122, ch: Some('m'), entry: Some("m"), numpad: false },
    KeyDef { name: "VC_N", code: 41123, ch: Some('n'), entry: Some("n"), numpad: false },
    KeyDef { name: "VC_O", code: 41124, ch: Some('o'), entry: Some("o"), numpad: false },
    KeyDef { name: "VC_P", code: 41125, ch: Some('p'), entry: Some("p"), numpad: false },
    KeyDef { name: "VC_Q", code: 41126, ch: Some('q'), entry: Some("q"), numpad: false },
    KeyDef { name: "VC_R", code: 41127, ch: Some('r'), entry: Some("r"), numpad: false },
    KeyDef { name: "VC_S", code: 41128, ch: Some('s'), entry: Some("s"), numpad: false },
    KeyDef { name: "VC_T", code: 41129, ch: Some('t'), entry: Some("t"), numpad: false },
    KeyDef { name: "VC_U", code: 41130, ch: Some('u'), entry: Some("u"), numpad: false },
    KeyDef { name: "VC_V", code: 41131, ch: Some('v'), entry: Some("v"), numpad: false },
    KeyDef { name: "VC_W", code: 41132, ch: Some('w'), entry: Some("w"), numpad: false },
    KeyDef { name: "VC_X", code: 41133, ch: Some('x'), entry: Some("x"), numpad: false },
    KeyDef { name: "VC_Y", code: 41134, ch: Some('y'), entry: Some("y"), numpad: false },
    KeyDef { name: "VC_Z", code: 41135, ch: Some('z'), entry: Some("z"), numpad: false },
    KeyDef { name: "VC_A_SHIFT", code: 41140, ch: Some('A'), entry: Some("A"), numpad: false },
    KeyDef { name: "VC_B_SHIFT", code: 41141, ch: Some('B'), entry: Some("B"), numpad: false },
    KeyDef { name: "VC_C_SHIFT", code: 41142, ch: Some('C'), entry: Some("C"), numpad: false },
    KeyDef { name: "VC_D_SHIFT", code: 41143, ch: Some('D'), entry: Some("D"), numpad: false },
    KeyDef { name: "VC_E_SHIFT", code: 41144, ch: Some('E'), entry: Some("E"), numpad: false },
    KeyDef { name: "VC_F_SHIFT", code: 41145, ch: Some('F'), entry: Some("F"), numpad: false },
    KeyDef { name: "VC_G_SHIFT", code: 41146, ch: Some('G'), entry: Some("G"), numpad: false },
    KeyDef { name: "VC_H_SHIFT", code: 41147, ch: Some('H'), entry: Some("H"), numpad: false },
    KeyDef { name: "VC_I_SHIFT", code: 41148, ch: Some('I'), entry: Some("I"), numpad: false },
    KeyDef { name: "VC_J_SHIFT", code: 41149, ch: Some('J'), entry: Some("J"), numpad: false },
    KeyDef { name: "VC_K_SHIFT", code: 41150, ch: Some('K'), entry: Some("K"), numpad: false },
    KeyDef { name: "VC_L_SHIFT", code: 41151, ch: Some('L'), entry: Some("L"), numpad: false },
    KeyDef { name: "VC_M_SHIFT", code: 41152, ch: Some('M'), entry: Some("M"), numpad: false },
    KeyDef { name: "VC_N_SHIFT", code: 41153, ch: Some('N'), entry: Some("N"), numpad: false },
    KeyDef { name: "VC_O_SHIFT", code: 41154, ch: Some('O'), entry: Some("O"), numpad: false },
    KeyDef { name: "VC_P_SHIFT", code: 41155, ch: Some('P'), entry: Some("P"), numpad: false },
    KeyDef { name: "VC_Q_SHIFT", code: 41156, ch: Some('Q'), entry: Some("Q"), numpad: false },
    KeyDef { name: "VC_R_SHIFT", code: 41157, ch: Some('R'), entry: Some("R"), numpad: false },
    KeyDef { name: "VC_S_SHIFT", code: 41158, ch: Some('S'), entry: Some("S"), numpad: false },
    KeyDef { name: "VC_T_SHIFT", code: 41159, ch: Some('T'), entry: Some("T"), numpad: false },
    KeyDef { name: "VC_U_SHIFT", code: 41160, ch: Some('U'), entry: Some("U"), numpad: false },
    KeyDef { name: "VC_V_SHIFT", code: 41161, ch: Some('V'), entry: Some("V"), numpad: false },
    KeyDef { name: "VC_W_SHIFT", code: 41162, ch: Some('W'), entry: Some("W"), numpad: false },
    KeyDef { name: "VC_X_SHIFT", code: 41163, ch: Some('X'), entry: Some("X"), numpad: false },
    KeyDef { name: "VC_Y_SHIFT", code: 41164, ch: Some('Y'), entry: Some("Y"), numpad: false },
    KeyDef { name: "VC_Z_SHIFT", code: 41165, ch: Some('Z'), entry: Some("Z"), numpad: false },
    KeyDef { name: "VC_BRACKET_LEFT", code: 26, ch: Some('['), entry: Some("BracketLeft"), numpad: false },
    KeyDef { name: "VC_BRACKET_RIGHT", code: 27, ch: Some(']'), entry: Some("BracketRight"), numpad: false },
    KeyDef { name: "VC_BACK_SLASH", code: 43, ch: Some('\\'), entry: Some("BackSlash"), numpad: false },
    KeyDef { name: "VC_BRACE_LEFT", code: 91, ch: Some('{'), entry: Some("BraceLeft"), numpad: false },
    KeyDef { name: "VC_BRACE_RIGHT", code: 92, ch: Some('}'), entry: Some("BraceRight"), numpad: false },
    KeyDef { name: "VC_BAR", code: 93, ch: Some('|'), entry: Some("Bar"), numpad: false },
    KeyDef { name: "VC_SEMICOLON", code: 39, ch: Some(';'), entry: Some("Semicolon"), numpad: false },
    KeyDef { name: "VC_APOSTROPHE", code: 40, ch: Some('\''), entry: Some("Apostrophe"), numpad: false },
    KeyDef { name: "VC_COMMA", code: 51, ch: Some(','), entry: Some("Comma"), numpad: false },
    KeyDef { name: "VC_PERIOD", code: 52, ch: Some('.'), entry: Some("Period"), numpad: false },
    KeyDef { name: "VC_SLASH", code: 53, ch: Some('/'), entry: Some("Slash"), numpad: false },
    KeyDef { name: "VC_COLON", code: 99, ch: Some(':'), entry: Some("Colon"), numpad: false },
    KeyDef { name: "VC_QUOTE", code: 100, ch: Some('"'), entry: Some("Quote"), numpad: false },
    KeyDef { name: "VC_LESS", code: 101, ch: Some('<'), entry: Some("Less"), numpad: false },
    KeyDef { name: "VC_GREATER", code: 102, ch: Some('>'), entry: Some("Greater"), numpad: false },
    KeyDef { name: "VC_QUESTION", code: 103, ch: Some('?'), entry: Some("Question"), numpad: false },
    KeyDef { name: "VC_KP_DIVIDE", code: 3637, ch: Some('/'), entry: Some("NumDivide"), numpad: true },
    KeyDef { name: "VC_KP_MULTIPLY", code: 55, ch: Some('*'), entry: Some("NumMultiply"), numpad: true },
    KeyDef { name: "VC_KP_SUBTRACT", code: 74, ch: Some('-'), entry: Some("NumSubtract"), numpad: true },
    KeyDef { name: "VC_KP_EQUALS", code: 3597, ch: None, entry: None, numpad: true },
    KeyDef { name: "VC_KP_ADD", code: 78, ch: Some('+'), entry: Some("NumAdd"), numpad: true },
    KeyDef { name: "VC_KP_ENTER", code: 3612, ch: None, entry: None, numpad: true },
    KeyDef { name: "VC_KP_DECIMAL", code: 83, ch: Some('.'), entry: Some("NumDecimal"), numpad: true },
    KeyDef { name: "VC_KP_1", code: 79, ch: Some('1'), entry: Some("Num1"), numpad: true },
    KeyDef { name: "VC_KP_2", code: 80, ch: Some('2'), entry: Some("Num2"), numpad: true },
    KeyDef { name: "VC_KP_3", code: 81, ch: Some('3'), entry: Some("Num3"), numpad: true },
    KeyDef { name: "VC_KP_4", code: 75, ch: Some('4'), entry: Some("Num4"), numpad: true },
    KeyDef { name: "VC_KP_5", code: 76, ch: Some('5'), entry: Some("Num5"), numpad: true },
    KeyDef { name: "VC_KP_6", code: 77, ch: Some('6'), entry: Some("Num6"), numpad: true },
    KeyDef { name: "VC_KP_7", code: 71, ch: Some('7'), entry: Some("Num7"), numpad: true },
    KeyDef { name: "VC_KP_8", code: 72, ch: Some('8'), entry: Some("Num8"), numpad: true },
    KeyDef { name: "VC_KP_9", code: 73, ch: Some('9'), entry: Some("Num9"), numpad: true },
    KeyDef { name: "VC_KP_0", code: 82, ch: Some('0'), entry: Some("Num0"), numpad: true },
];

/// Key code for an ASCII character, main zone only (never a number-pad key).
pub fn code_for_char(c: char) -> Option<u16> {
    KEYS.iter().find(|k| !k.numpad && k.ch == Some(c)).map(|k| k.code)
}

pub fn by_code(code: u16) -> Option<&'static KeyDef> {
    KEYS.iter().find(|k| k.code == code)
}

pub fn by_name(name: &str) -> Option<&'static KeyDef> {
    KEYS.iter().find(|k| k.name == name)
}
