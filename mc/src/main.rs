//! ritimc — bounded exhaustive exploration of the real riti implementation.
//!
//! usage: ritimc <PROPERTY-ID> <quick|thorough>
//!        ritimc replay <path>
//!
//! exit 0: property held on everything explored (known findings are printed, not counted)
//! exit 1: at least one `VIOLATION property=<id> replay=<path>` line was printed
//! exit 2: machinery error (never a verdict)

mod avro;
mod bn;
mod data;
mod drv;
mod fxgraph;
mod fxref;
mod histgraph;
mod keys;
mod par;
mod phon;
mod props;
mod replay;
mod report;

use std::process::ExitCode;

fn main() -> ExitCode {
    let args: Vec<String> = std::env::args().collect();
    if args.len() < 3 {
        eprintln!("usage: ritimc <ID> <quick|thorough> | ritimc replay <path>");
        return ExitCode::from(2);
    }
    drv::install_panic_hook();
    if args[1] == "replay" {
        return match replay::replay_file(&args[2]) {
            Ok(()) => ExitCode::from(0),
            Err(e) => {
                eprintln!("replay error: {}", e);
                ExitCode::from(2)
            }
        };
    }
    if args[1] == "crashreport" {
        // ritimc crashreport <ID> <tier> <journal dir>: which journalled history kills a fresh process?
        return crashreport(&args[2].to_uppercase(), &args[3], &args[4]);
    }
    let id = args[1].to_uppercase();
    let tier = args[2].as_str();
    if tier != "quick" && tier != "thorough" {
        eprintln!("tier must be quick or thorough");
        return ExitCode::from(2);
    }
    let thorough = tier == "thorough";
    let report = report::Report::new(&id, tier);
    spawn_watchdog(id.clone(), tier.to_string());
    let run: Option<fn(&report::Report, bool) -> report::Evidence> = props::lookup(&id);
    let Some(run) = run else {
        eprintln!("unknown property {}", id);
        return ExitCode::from(2);
    };
    // A panic inside the harness itself (outside `guard`) is a machinery error.
    let res = std::panic::catch_unwind(std::panic::AssertUnwindSafe(|| run(&report, thorough)));
    drv::cleanup_scratch();
    match res {
        Ok(ev) => {
            report.confirm_slow();
            ev.write(&report);
            let n = report.finish();
            drv::cleanup_scratch();
            println!(
                "{} {}: {} new violation class(es), {} known-finding instance(s), {:.1}s",
                id,
                tier,
                n,
                report.known_count(),
                report.start.elapsed().as_secs_f64()
            );
            if report.nondeterministic.load(std::sync::atomic::Ordering::SeqCst) {
                eprintln!("MACHINERY ERROR: a recorded history did not replay deterministically; no verdict");
                return ExitCode::from(2);
            }
            if n > 0 {
                ExitCode::from(1)
            } else {
                ExitCode::from(0)
            }
        }
        Err(_) => {
            eprintln!("MACHINERY ERROR: harness panicked (see message above); no verdict");
            ExitCode::from(2)
        }
    }
}

/// A call into riti that has not returned after HANG_TICKS watchdog ticks is a violation of C01's
/// "no unbounded blow-up in time" wherever it happens; it is reported under the running check's id
/// (the check cannot decide anything else either) and the process exits at once.
fn spawn_watchdog(id: String, tier: String) {
    std::thread::spawn(move || loop {
        std::thread::sleep(std::time::Duration::from_millis(1000));
        let now = drv::TICK.fetch_add(1, std::sync::atomic::Ordering::Relaxed) + 1;
        let reg: Vec<_> = drv::REGISTRY.lock().unwrap().iter().filter_map(|w| w.upgrade()).collect();
        for j in reg {
            let j = j.lock().unwrap();
            if let Some(t) = j.started {
                if now.saturating_sub(t) > drv::HANG_TICKS {
                    let dir = format!("{}/replays/{}", drv::verif_root(), id);
                    let _ = std::fs::create_dir_all(&dir);
                    let path = format!("{}/{}-hang.json", dir, tier);
                    let detail = format!("the last event of this history had not returned after {} watchdog ticks of one second (unbounded time)", drv::HANG_TICKS);
                    let _ = std::fs::write(&path, serde_json::to_string_pretty(&j.to_json(&id, "hang", &detail)).unwrap());
                    write_abort_evidence(&id, &tier, &detail);
                    println!("VIOLATION property={} replay={}", id, path);
                    println!("  kind=hang history=[{}] origin={:?} {}", drv::hist_short(&j.since), j.origin, detail);
                    std::process::exit(1);
                }
            }
        }
    });
}

fn write_abort_evidence(id: &str, tier: &str, detail: &str) {
    let seed: i64 = std::env::var("VERIF_SEED").ok().and_then(|s| s.parse().ok()).unwrap_or(0);
    let j = serde_json::json!({
        "property_id": id, "tier": tier, "seed": seed, "level": "other",
        "coverage": {"explanation": format!("exploration stopped at its first fatal event: {}", detail), "exhaustive": false},
        "assumptions": [], "wall_s": 0.0, "violations": 1
    });
    let _ = std::fs::create_dir_all(format!("{}/evidence", drv::verif_root()));
    let _ = std::fs::write(format!("{}/evidence/{}.json", drv::verif_root(), id), serde_json::to_string_pretty(&j).unwrap() + "\n");
}

fn crashreport(id: &str, tier: &str, dir: &str) -> ExitCode {
    let exe = std::env::current_exe().expect("exe");
    let mut files: Vec<_> = std::fs::read_dir(dir).map(|rd| rd.flatten().map(|e| e.path()).collect()).unwrap_or_default();
    files.sort();
    for f in files {
        let st = std::process::Command::new(&exe).arg("replay").arg(&f).stdout(std::process::Stdio::null()).stderr(std::process::Stdio::null()).status();
        let died = match st {
            Ok(s) => !s.success() && s.code().map(|c| c > 2).unwrap_or(true),
            Err(_) => false,
        };
        if died {
            let rdir = format!("{}/replays/{}", drv::verif_root(), id);
            let _ = std::fs::create_dir_all(&rdir);
            let path = format!("{}/{}-abort.json", rdir, tier);
            let _ = std::fs::copy(&f, &path);
            write_abort_evidence(id, tier, "a call killed the process (abort / stack overflow); the journalled history reproduces it in a fresh process");
            println!("VIOLATION property={} replay={}", id, path);
            println!("  kind=abort the journalled history kills a fresh process when replayed (see the replay file)");
            return ExitCode::from(1);
        }
    }
    eprintln!("MACHINERY ERROR: the run died abnormally but no journalled history reproduces it; no verdict");
    ExitCode::from(2)
}
