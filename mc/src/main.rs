//! ritimc — bounded exhaustive exploration of the real riti implementation.
//!
//! usage: ritimc <PROPERTY-ID> <quick|thorough>
//!        ritimc replay <path>
//!
//! exit 0: property held on everything explored (known findings are printed, not counted)
//! exit 1: at least one `VIOLATION property=<id> replay=<path>` line was printed
//! exit 2: machinery error (never a verdict)

mod avro;
mod bn;
mod data;
mod drv;
mod fxgraph;
mod fxref;
mod histgraph;
mod keys;
mod par;
mod phon;
mod props;
mod replay;
mod report;

use std::process::ExitCode;

fn main() -> ExitCode {
    let args: Vec<String> = std::env::args().collect();
    if args.len() < 3 {
        eprintln!("usage: ritimc <ID> <quick|thorough> | ritimc replay <path>");
        return ExitCode::from(2);
    }
    drv::install_panic_hook();
    if args[1] == "replay" {
        return match replay::replay_file(&args[2]) {
            Ok(()) => ExitCode::from(0),
            Err(e) => {
                eprintln!("replay error: {}", e);
                ExitCode::from(2)
            }
        };
    }
    let id = args[1].to_uppercase();
    let tier = args[2].as_str();
    if tier != "quick" && tier != "thorough" {
        eprintln!("tier must be quick or thorough");
        return ExitCode::from(2);
    }
    let thorough = tier == "thorough";
    let report = report::Report::new(&id, tier);
    let run: Option<fn(&report::Report, bool) -> report::Evidence> = props::lookup(&id);
    let Some(run) = run else {
        eprintln!("unknown property {}", id);
        return ExitCode::from(2);
    };
    // A panic inside the harness itself (outside `guard`) is a machinery error.
    let res = std::panic::catch_unwind(std::panic::AssertUnwindSafe(|| run(&report, thorough)));
    drv::cleanup_scratch();
    match res {
        Ok(ev) => {
            ev.write(&report);
            let n = report.finish();
            println!(
                "{} {}: {} new violation class(es), {} known-finding instance(s), {:.1}s",
                id,
                tier,
                n,
                report.known_count(),
                report.start.elapsed().as_secs_f64()
            );
            if n > 0 {
                ExitCode::from(1)
            } else {
                ExitCode::from(0)
            }
        }
        Err(_) => {
            eprintln!("MACHINERY ERROR: harness panicked (see message above); no verdict");
            ExitCode::from(2)
        }
    }
}
