//! Small parallel helpers (std threads only).

use std::sync::atomic::{AtomicUsize, Ordering};

pub fn nthreads() -> usize {
    std::env::var("VERIF_THREADS")
        .ok()
        .and_then(|s| s.parse().ok())
        .unwrap_or_else(|| std::thread::available_parallelism().map(|n| n.get()).unwrap_or(4))
        .max(1)
}

/// Run `f(worker_state, index)` for every index in `0..n`, dynamically balanced over
/// `nthreads()` workers. `init(worker_id)` creates each worker's private state (e.g. a real
/// context, which need not be `Send`); `done` turns
/// it into a sendable result when the worker finishes.
pub fn par_for<W, R: Send>(
    n: usize,
    chunk: usize,
    init: impl Fn(usize) -> W + Sync,
    f: impl Fn(&mut W, usize) + Sync,
    done: impl Fn(W) -> R + Sync,
) -> Vec<R> {
    let next = AtomicUsize::new(0);
    let nt = nthreads().min(n.max(1));
    let chunk = chunk.max(1);
    std::thread::scope(|s| {
        let hs: Vec<_> = (0..nt)
            .map(|w| {
                let next = &next;
                let init = &init;
                let f = &f;
                let done = &done;
                std::thread::Builder::new()
                    .stack_size(64 << 20)
                    .spawn_scoped(s, move || {
                        let mut st = init(w);
                        loop {
                            let a = next.fetch_add(chunk, Ordering::Relaxed);
                            if a >= n {
                                break;
                            }
                            for i in a..(a + chunk).min(n) {
                                f(&mut st, i);
                            }
                        }
                        done(st)
                    })
                    .expect("spawn worker")
            })
            .collect();
        hs.into_iter().map(|h| h.join().expect("worker thread died")).collect()
    })
}

/// Debug aid: `VERIF_PART=<substring>` restricts a check to the sub-explorations whose name
/// contains the substring (never set by the registered commands).
pub fn part_enabled(name: &str) -> bool {
    match std::env::var("VERIF_PART") {
        Ok(p) if !p.is_empty() => name.contains(&p),
        _ => true,
    }
}
