//! Shared walker and oracles for the phonetic candidate list (C07 ranking, C08 justification
//! and suffix completeness). Texts are typed depth-first into a real context; the harness
//! keeps its own record of the direct candidates it has *seen* for every word, reads the data
//! files itself and classifies every candidate independently.

use crate::avro::{join, split_ref, Avro};
use crate::data::Dict;
use crate::drv::{Ctx, Ev, Opts, Rend};
use crate::report::{Report, Violation};
use regex::Regex;
use std::collections::{HashMap, HashSet};

fn curl_open(s: &str) -> String {
    s.chars().map(|c| match c { '\'' => '\u{2018}', '"' => '\u{201C}', c => c }).collect()
}
fn curl_close(s: &str) -> String {
    s.chars().map(|c| match c { '\'' => '\u{2019}', '"' => '\u{201D}', c => c }).collect()
}

#[derive(Clone, Debug, Default)]
pub struct Seen {
    /// direct candidates (dictionary matches and the auto-correct entry) seen in the word's own list
    pub direct: Vec<String>,
    /// transliterated auto-correct entry of the word, if any
    pub auto: Option<String>,
    pub translit: String,
}

#[derive(Clone, Copy, PartialEq, Eq, Debug)]
pub enum Which {
    C07,
    C08,
}

pub struct Oracle<'a> {
    pub dict: &'a Dict,
    pub avro: &'a Avro,
    pub emoji: &'a HashSet<String>,
    pub emoticons: &'a HashMap<String, String>,
    pub report: &'a Report,
    pub which: Which,
    pub user_ac: HashMap<String, String>,
}

#[derive(Default)]
pub struct Counters {
    pub lists: u64,
    pub candidates: u64,
    pub dict_justified: u64,
    pub suffix_justified: u64,
    pub completeness_obligations: u64,
    pub with_autocorrect: u64,
    pub with_emoji: u64,
    /// a few judged lists of this walker (evidence samples)
    pub samples: Vec<serde_json::Value>,
}

impl<'a> Oracle<'a> {
    fn prop(&self) -> &'static str {
        match self.which {
            Which::C07 => "C07",
            Which::C08 => "C08",
        }
    }
    fn autocorrect(&self, word: &str) -> Option<String> {
        self.user_ac.get(word).or_else(|| self.dict.autocorrect.get(word)).map(|v| self.avro.tr(v))
    }

    /// Judge the list returned for typed text `text`; updates `seen` with the word's direct candidates.
    pub fn judge(&self, opts: &Opts, evs: &[Ev], text: &str, r: &Rend, seen: &mut HashMap<String, Seen>, cnt: &mut Counters) {
        let Rend::Full { items, .. } = r else { return };
        cnt.lists += 1;
        cnt.candidates += items.len() as u64;
        if cnt.samples.len() < 2 && items.len() >= 4 && text.len() >= 3 {
            cnt.samples.push(serde_json::json!({"flags": opts.flags(), "typed": text, "list_judged": items}));
        }
        let (sp, word, st) = split_ref(text, false);
        let (lead, trail) = {
            let (a, b) = (self.avro.tr(&sp), self.avro.tr(&st));
            if opts.smart && !word.is_empty() { (curl_open(&a), curl_close(&b)) } else { (a, b) }
        };
        let inner_of = |c: &String| -> Option<String> {
            if c.len() >= lead.len() + trail.len() && c.starts_with(&lead) && c.ends_with(&trail) { Some(c[lead.len()..c.len() - trail.len()].to_string()) } else { None }
        };
        let viol = |kind: &str, detail: String| {
            self.report.add(
                Violation::new(self.prop(), kind, kind)
                    .opts(opts)
                    .events(evs)
                    .feat("typed", text.to_string())
                    .detail(format!("typed {:?} (word {:?}): candidates {:?}: {}", text, word, items, detail)),
            );
        };
        let translit = self.avro.tr(&word);
        let auto = self.autocorrect(&word);
        if auto.is_some() {
            cnt.with_autocorrect += 1;
        }
        let is_emoticon = self.emoticons.contains_key(text);
        let rgx: Option<Regex> = if word.is_empty() { None } else { Regex::new(&self.avro.regex.convert_regex(&word)).ok() };
        // splits of the word into base + known suffix (bases the harness has seen)
        let mut splits: Vec<(&Seen, String)> = vec![];
        if word.len() > 2 {
            for i in 1..word.len() {
                if !word.is_char_boundary(i) {
                    continue;
                }
                if let (Some(sfx), Some(base_seen)) = (self.dict.suffix.get(&word[i..]), seen.get(&word[..i])) {
                    splits.push((base_seen, sfx.clone()));
                }
            }
        }
        // ---- classify every candidate ----
        #[derive(Debug)]
        struct Cl {
            auto: bool,
            emoji: bool,
            raw: bool,
            translit: bool,
            /// admissible ranks when dictionary-derived (-1 = derived from a base's auto-correct entry)
            ranks: Vec<i64>,
            direct: bool,
        }
        let mut cls: Vec<Cl> = vec![];
        let mut direct_now: Vec<String> = vec![];
        for (i, c) in items.iter().enumerate() {
            let inner = inner_of(c);
            let mut cl = Cl { auto: false, emoji: false, raw: false, translit: false, ranks: vec![], direct: false };
            if self.emoji.contains(c.as_str()) || inner.as_ref().map(|x| self.emoji.contains(x.as_str())).unwrap_or(false) {
                cl.emoji = true;
            }
            if c == text {
                cl.raw = true;
            }
            if let Some(inner) = &inner {
                if auto.as_deref() == Some(inner.as_str()) && i == 0 {
                    cl.auto = true;
                    cl.direct = true;
                }
                if *inner == translit {
                    cl.translit = true;
                }
                if let Some(rg) = &rgx {
                    if self.dict.set.contains(inner) && rg.is_match(inner) {
                        cl.ranks.push(edit_distance::edit_distance(&translit, inner) as i64);
                        cl.direct = true;
                        cnt.dict_justified += 1;
                    }
                }
                for (base, sfx) in &splits {
                    for d in &base.direct {
                        if join(d, sfx) == *inner {
                            if base.auto.as_deref() == Some(d.as_str()) {
                                cl.ranks.push(-1);
                            }
                            // the same text may also be a plain dictionary match of the base
                            if base.auto.as_deref() != Some(d.as_str()) || self.dict.set.contains(d) {
                                cl.ranks.push(edit_distance::edit_distance(&base.translit, d) as i64);
                            }
                            cnt.suffix_justified += 1;
                        }
                    }
                }
                if cl.direct && !direct_now.contains(inner) {
                    direct_now.push(inner.clone());
                }
            }
            cl.ranks.sort();
            cl.ranks.dedup();
            cls.push(cl);
        }
        if cls.iter().any(|c| c.emoji) {
            cnt.with_emoji += 1;
        }

        match self.which {
            Which::C07 => {
                // 1. auto-correct entry first
                if let Some(a) = &auto {
                    let exp = format!("{}{}{}", lead, a, trail);
                    if items.first() != Some(&exp) {
                        viol("autocorrect-not-first", format!("auto-correct entry {:?} is not the first candidate", exp));
                    }
                }
                // 6. no text twice
                let mut set = HashSet::new();
                for c in items {
                    if !set.insert(c) {
                        viol("duplicate-candidate", format!("{:?} occurs twice", c));
                        break;
                    }
                }
                // 2. dictionary-derived candidates in non-decreasing rank (an assignment must exist)
                let mut prev: i64 = i64::MIN;
                for (i, cl) in cls.iter().enumerate() {
                    if cl.auto || cl.ranks.is_empty() {
                        continue;
                    }
                    match cl.ranks.iter().find(|&&r| r >= prev) {
                        Some(&r) => prev = r,
                        None => {
                            viol("distance-order", format!("candidate {} ({:?}) has admissible distances {:?} after a candidate of distance {}", i, items[i], cl.ranks, prev));
                            break;
                        }
                    }
                }
                // 3. the plain transliteration comes after every dictionary word unless it is one itself
                if let Some(k) = cls.iter().position(|c| c.translit) {
                    if cls[k].ranks.is_empty() && !cls[k].auto {
                        if let Some(j) = (k + 1..cls.len()).find(|&j| !cls[j].ranks.is_empty() && !cls[j].translit) {
                            viol("transliteration-before-dictionary-word", format!("plain transliteration at {} precedes dictionary-derived candidate {} ({:?})", k, j, items[j]));
                        }
                    }
                    // 5. an emoji never precedes a dictionary word that equals the transliteration
                    if !cls[k].ranks.is_empty() {
                        if let Some(j) = (0..k).find(|&j| cls[j].emoji) {
                            viol("emoji-before-exact-word", format!("emoji {:?} at {} precedes the dictionary word equal to the transliteration at {}", items[j], j, k));
                        }
                    }
                } else if !word.is_empty() || !text.is_empty() {
                    viol("transliteration-missing", format!("the plain transliteration {:?} is not a candidate", format!("{}{}{}", lead, translit, trail)));
                }
                // 4. raw English last
                if opts.english && !opts.ansi {
                    if !items.contains(&text.to_string()) {
                        viol("english-missing", "the raw typed text is not offered although the option is on".into());
                    } else if !is_emoticon && items.last().map(|s| s.as_str()) != Some(text) {
                        viol("english-not-last", "the raw typed text is not the last candidate".into());
                    }
                }
            }
            Which::C08 => {
                // justification of every candidate that is not auto / transliteration / emoji / raw
                for (i, cl) in cls.iter().enumerate() {
                    if cl.auto || cl.translit || cl.emoji || cl.raw {
                        continue;
                    }
                    if cl.ranks.is_empty() {
                        viol(
                            "unjustified-candidate",
                            format!("candidate {} ({:?}) is neither a dictionary word matching the pattern of {:?} nor a seen direct candidate of a base joined to a known suffix", i, items[i], word),
                        );
                    }
                }
                // completeness of suffix forms
                for (base, sfx) in &splits {
                    for d in &base.direct {
                        cnt.completeness_obligations += 1;
                        let exp = format!("{}{}{}", lead, join(d, sfx), trail);
                        if !items.contains(&exp) {
                            viol("suffix-form-missing", format!("direct candidate {:?} of the base joined to suffix {:?} = {:?} is not offered", d, sfx, exp));
                        }
                    }
                }
            }
        }
        // record what was seen for this word (bare or wrapped: the direct candidates are those of the word)
        if !word.is_empty() {
            let e = seen.entry(word.clone()).or_insert_with(|| Seen { direct: vec![], auto: auto.clone(), translit: translit.clone() });
            for d in direct_now {
                if !e.direct.contains(&d) {
                    e.direct.push(d);
                }
            }
        }
    }
}

/// Depth-first typing with backspace; every returned list is judged.
pub struct Walker<'a> {
    pub ctx: Ctx,
    pub oracle: &'a Oracle<'a>,
    pub seen: HashMap<String, Seen>,
    pub cnt: Counters,
    pub text: String,
    pub events: u64,
    /// events that came before the current word in this context and matter for it (a learning commit): part of every recorded history
    pub prefix: Vec<Ev>,
}

impl<'a> Walker<'a> {
    pub fn new(ctx: Ctx, oracle: &'a Oracle<'a>) -> Walker<'a> {
        Walker { ctx, oracle, seen: HashMap::new(), cnt: Counters::default(), text: String::new(), events: 0, prefix: vec![] }
    }
    fn evs(&self) -> Vec<Ev> {
        self.prefix.iter().cloned().chain(self.text.chars().map(Ev::ch)).collect()
    }
    pub fn press(&mut self, c: char) -> bool {
        self.events += 1;
        match self.ctx.ch(c) {
            Ok(r) => {
                self.text.push(c);
                let evs = self.evs();
                let t = self.text.clone();
                self.oracle.judge(&self.ctx.opts, &evs, &t, &r, &mut self.seen, &mut self.cnt);
                true
            }
            Err(f) => {
                let mut evs = self.evs();
                evs.push(Ev::ch(c));
                self.oracle.report.add(crate::props::c01::fail_violation(self.oracle.prop(), &f, &self.ctx.opts, &evs));
                self.resync();
                false
            }
        }
    }
    pub fn back(&mut self) {
        self.events += 1;
        match self.ctx.bs() {
            Ok(r) => {
                self.text.pop();
                if !self.text.is_empty() {
                    let mut evs = self.evs();
                    evs.push(Ev::ch('a'));
                    evs.push(Ev::Bs);
                    let t = self.text.clone();
                    self.oracle.judge(&self.ctx.opts, &evs, &t, &r, &mut self.seen, &mut self.cnt);
                }
            }
            Err(f) => {
                let mut evs = self.evs();
                evs.push(Ev::Bs);
                self.oracle.report.add(crate::props::c01::fail_violation(self.oracle.prop(), &f, &self.ctx.opts, &evs));
                self.text.pop();
                self.resync();
            }
        }
    }
    fn resync(&mut self) {
        let _ = self.ctx.apply(&Ev::Finish);
        for c in self.text.clone().chars() {
            let _ = self.ctx.ch(c);
        }
    }
    pub fn finish(&mut self) {
        let _ = self.ctx.apply(&Ev::Finish);
        self.text.clear();
    }
    /// type a whole string key by key (judging every list), then finish the word
    pub fn type_word(&mut self, s: &str) {
        for c in s.chars() {
            if !self.press(c) {
                break;
            }
        }
        self.finish();
    }
    pub fn rec(&mut self, alphabet: &[char], depth: usize) {
        if depth == 0 {
            return;
        }
        for &c in alphabet {
            if self.press(c) {
                self.rec(alphabet, depth - 1);
                self.back();
            }
        }
    }
}
