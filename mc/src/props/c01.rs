//! C01 — no in-contract sequence of API calls can crash the engine.
//!
//! Oracle everywhere: the call returns (no panic), the returned suggestion can be read out
//! completely, and the call took < 2 s. Sub-explorations:
//!  (a1) fixed method, suggestions off: state graph over a 36-key class alphabet + backspace,
//!       ctrl-backspace, finish, commit — all 2^10 option combinations at length L1 and the 64
//!       combinations of the six composition options at length L2;
//!  (a2) fixed method, suggestions on (tiny and real database): history graph;
//!  (b)  every published key (111 codes x 4 modifiers x selection {0,1,255}) from idle and
//!       from representative non-idle states, both methods;
//!  (c)  phonetic method: history graph incl. commit of every index, restart, update-engine,
//!       the two text-less keypad keys; 16 option combinations on the tiny database, 2 on the
//!       real one;
//!  (d)  long words: one family per transliteration pattern length grown to N characters.

use crate::drv::{fixture, hist_short, real_db, scratch_xdg, Ctx, Ev, Fail, Opts, Out, Rend};
use crate::fxgraph::{self, hist_events, GraphStats};
use crate::histgraph::{self, HistStats};
use crate::keys::KEYS;
use crate::par::par_for;
use crate::props::c12::key_ev;
use crate::report::{Evidence, Report, Samples, Violation};
use serde_json::json;
use std::collections::BTreeMap;
use std::sync::atomic::{AtomicU64, Ordering};
use std::sync::Mutex;

pub const FIXED_BIG: &[(char, bool)] = &[
    ('k', false), ('f', false), ('r', false), ('Z', false), ('*', false), ('v', false), ('I', false),
    ('a', false), ('i', false), ('e', false), ('u', false), ('w', false), ('<', false), ('[', false),
    ('{', false), (']', false), ('}', false), ('d', true), (']', true), ('/', false), ('>', false),
    ('L', false), ('\\', false), ('`', false), (',', false), ('\'', false), ('.', false), ('1', false),
    ('k', true), ('r', true), ('z', true), ('K', true), ('c', true), ('e', true), ('j', true),
];

pub fn fixed_big_alphabet() -> Vec<Ev> {
    let mut a: Vec<Ev> = FIXED_BIG.iter().map(|&(c, g)| key_ev(c, g)).collect();
    a.push(Ev::Key { code: crate::keys::by_name("VC_KP_1").unwrap().code, m: 0, sel: 0 });
    a.push(Ev::Bs);
    a.push(Ev::CtrlBs);
    a.push(Ev::Finish);
    a.push(Ev::Commit(0));
    a
}

pub fn fail_violation(prop: &str, f: &Fail, opts: &Opts, evs: &[Ev]) -> Violation {
    let (kind, class, detail, mut feats): (&str, String, String, Vec<(String, String)>) = match f {
        Fail::CallPanic(p) => (
            "panic",
            format!("panic:{}", p.short()),
            format!("call panicked: {} ({}:{})", p.msg, p.file, p.line),
            vec![("panic_file".into(), p.file.clone()), ("panic_msg".into(), p.msg.clone()), ("where".into(), "call".into())],
        ),
        Fail::Read(crate::drv::ReadErr::Panic { what, index, panic, items }) => (
            "read-panic",
            format!("read-panic:{}:{}", what, panic.short()),
            format!("{}({}) panicked: {} ({}:{}); candidates {:?}", what, index, panic.msg, panic.file, panic.line, items),
            vec![
                ("panic_file".into(), panic.file.clone()),
                ("panic_msg".into(), panic.msg.clone()),
                ("where".into(), what.clone()),
                ("candidate".into(), items.get(*index).map(|s| crate::bn::esc(s)).unwrap_or_default()),
            ],
        ),
        Fail::Slow(s) => ("slow", "slow".into(), format!("call took {:.2} s", s), vec![]),
    };
    if let Some(Ev::Key { code, .. }) = evs.last() {
        feats.push(("key".into(), crate::keys::by_code(*code).map(|k| k.name.to_string()).unwrap_or(format!("0x{:04X}", code))));
    }
    let mut v = Violation::new(prop, kind, &class).opts(opts).events(evs).detail(detail);
    for (k, val) in feats {
        v = v.feat(&k, val);
    }
    v
}

fn merge_h(a: &mut HistStats, b: &HistStats) {
    a.states += b.states;
    a.transitions += b.transitions;
    a.replayed_events += b.replayed_events;
    a.max_depth = a.max_depth.max(b.max_depth);
    a.failed_transitions += b.failed_transitions;
    a.distinct_outcomes += b.distinct_outcomes;
}

/// events enabled in a phonetic/fixed history state for C01-style exploration
pub fn enabled_with_commits(keys: &[Ev], shown: Option<&Rend>, extra: &[Ev]) -> Vec<Ev> {
    let mut v: Vec<Ev> = vec![];
    let sel = shown.map(|r| r.sel().min(255) as u8).unwrap_or(0);
    for k in keys {
        if let Ev::Key { code, m, sel: own } = k {
            // front-end emulation: the selection byte is the preselected index of the shown list - unless the alphabet gives the
            // key a byte of its own ("any selection byte" is in contract for C01)
            v.push(Ev::Key { code: *code, m: *m, sel: if *own != 0 { *own } else { sel } });
        }
    }
    v.push(Ev::Bs);
    v.push(Ev::CtrlBs);
    v.push(Ev::Finish);
    if let Some(r) = shown {
        match r {
            Rend::Full { items, .. } => {
                for i in 0..items.len() {
                    v.push(Ev::Commit(i));
                }
            }
            Rend::Single { .. } => v.push(Ev::Commit(0)),
            Rend::Empty => {}
        }
    }
    v.extend(extra.iter().cloned());
    v
}

/// update-engine events for an idle phonetic context: the same configuration and every single flip of
/// {English, suggestions, ANSI, smart quotes} of the current one
fn idle_updates(cur: &Opts, flips: usize) -> Vec<Ev> {
    let mut v = vec![Ev::Update(Box::new(cur.clone()))];
    // (a history that re-configured the context makes the search re-create it from scratch before the next history:
    // affordable with the fixture data only)
    if !cur.db.contains("fixtures") {
        return v;
    }
    for i in 0..flips {
        let mut o = cur.clone();
        o.via_update = false;
        match i {
            0 => o.english = !o.english,
            1 => o.psugg = !o.psugg,
            2 => o.ansi = !o.ansi,
            _ => o.smart = !o.smart,
        }
        v.push(Ev::Update(Box::new(o)));
    }
    v
}

pub fn run(report: &Report, thorough: bool) -> Evidence {
    let layout = fixture("layout_synth.json");
    let tiny = fixture("tiny_db");
    let samples = Samples::new(10);
    let mut parts = serde_json::Map::new();
    let mut states = 0u64;
    let mut transitions = 0u64;
    let mut t_part = std::time::Instant::now();
    let mut times = serde_json::Map::new();

    // ---------- (a1) fixed, suggestions off, restore-based graph ----------
    {
        let alphabet = fixed_big_alphabet();
        let (l_all, l_six) = if thorough { (3, 4) } else { (2, 3) };
        // job = (bits over the 10 options other than fsugg, max_len)
        let mut jobs: Vec<(u32, usize)> = vec![];
        for bits in 0..(1u32 << 11) {
            if bits & (1 << 2) != 0 {
                continue; // fsugg on is explored in (a2)
            }
            jobs.push((bits, l_all));
        }
        for six in 0..64u32 {
            // vowel, chandra, kar, reph, numpad, karorder = bits 3..=8
            jobs.push((six << 3, l_six));
        }
        let total = Mutex::new(GraphStats::default());
        par_for(
            jobs.len(),
            1,
            |w| scratch_xdg(&format!("c01a-{}", w)),
            |xdg, idx| {
                let (bits, max_len) = jobs[idx];
                let o = Opts::fixed(&layout, "", xdg).with_bits(bits);
                let mut ctx = Ctx::new(&o).expect("ctx");
                ctx.with_pre = o.ansi;
                let st = fxgraph::bfs(&mut ctx, &alphabet, max_len, 64, |ctx, step| {
                    if let Err(f) = step.out {
                        let mut evs = hist_events(&alphabet, step.hist);
                        evs.push(step.ev.clone());
                        report.add(fail_violation("C01", f, &ctx.opts, &evs));
                    }
                });
                total.lock().unwrap().merge(&st);
            },
            |_| (),
        );
        let st = total.lock().unwrap().clone();
        states += st.states;
        transitions += st.transitions;
        times.insert("a1_fixed_graph".into(), json!(t_part.elapsed().as_secs_f64()));
        t_part = std::time::Instant::now();
        parts.insert(
            "a1_fixed_graph".into(),
            json!({"configurations": jobs.len(), "alphabet": alphabet.len(), "len_all_options": l_all, "len_six_composition_options": l_six,
                   "states": st.states, "transitions": st.transitions, "cut": st.cut_transitions, "failed": st.failed_transitions}),
        );
    }

    // ---------- (a2) fixed, suggestions on: history graph ----------
    {
        // (the last seven keys emit regex-special ASCII characters: the typed word is pasted into a regex)
        let keys: Vec<Ev> = [('k', false), ('r', false), ('a', false), ('i', false), ('/', false), ('>', false), ('v', false), ('\'', false), (';', false), (')', false), ('k', true), ('z', true), ('d', true), ('e', true),
            ('\\', true), ('[', true), ('{', true), ('|', true), ('*', true), ('^', true), ('>', true), ('?', false), ('(', false), ('+', false)]
            .iter()
            .map(|&(c, g)| key_ev(c, g))
            .collect();
        let depth = if thorough { 4 } else { 3 };
        let mut total = HistStats::default();
        // (db, english, ansi, smart, kar, karorder+reph+vowel+chandra)
        let mut cfgs: Vec<Opts> = vec![];
        for bits in 0..32u32 {
            let mut o = Opts::fixed(&layout, &tiny, "");
            o.fsugg = true;
            o.english = bits & 1 != 0;
            o.ansi = bits & 2 != 0;
            o.smart = bits & 4 != 0;
            o.kar = bits & 8 != 0;
            if bits & 16 != 0 {
                o.karorder = true;
                o.reph = true;
                o.vowel = true;
                o.chandra = true;
            }
            cfgs.push(o);
        }
        for english in [false, true] {
            let mut o = Opts::fixed(&layout, &real_db(), "");
            o.fsugg = true;
            o.english = english;
            o.kar = true;
            o.vowel = true;
            o.chandra = true;
            o.reph = true;
            cfgs.push(o);
        }
        let n_cfg = cfgs.len();
        for (ci, o) in cfgs.into_iter().enumerate() {
            let real = o.db == real_db();
            let d = if real { depth - 1 } else { depth };
            let st = histgraph::bfs(
                |w| {
                    let mut o = o.clone();
                    o.xdg = scratch_xdg(&format!("c01a2-{}-{}", ci, w));
                    Ctx::new(&o).expect("ctx")
                },
                &BTreeMap::new(),
                &[],
                d,
                |_h, shown, _ctx| {
                    let mut v = keys.clone();
                    v.push(Ev::Bs);
                    v.push(Ev::CtrlBs);
                    v.push(Ev::Finish);
                    if let Some(r) = shown {
                        if r.len() > 0 {
                            v.push(Ev::Commit(r.len() - 1));
                        }
                    }
                    v
                },
                |ctx, step| {
                    if let Err(f) = step.out {
                        let mut evs = step.hist.to_vec();
                        evs.push(step.ev.clone());
                        report.add(fail_violation("C01", f, &ctx.opts, &evs));
                    } else if let Ok(Out::Sugg(r)) = step.out {
                        if r.len() > 3 {
                            samples.offer(|| json!({"part": "a2", "flags": ctx.opts.flags(), "history": hist_short(step.hist), "event": step.ev.short(), "result": r.to_json()}));
                        }
                    }
                },
                |_| true,
            );
            merge_h(&mut total, &st);
        }
        states += total.states;
        transitions += total.transitions;
        times.insert("a2_fixed_suggestions_history_graph".into(), json!(t_part.elapsed().as_secs_f64()));
        t_part = std::time::Instant::now();
        parts.insert("a2_fixed_suggestions_history_graph".into(), json!({"configurations": n_cfg, "depth": depth, "states": total.states, "transitions": total.transitions, "failed": total.failed_transitions, "distinct_outcomes": total.distinct_outcomes}));
    }

    // ---------- (b) every published key everywhere ----------
    {
        // representative states as histories
        let fixed_states: Vec<Vec<Ev>> = vec![
            vec![],
            vec![key_ev('k', false)],
            vec![key_ev('k', false), key_ev('/', false)],
            vec![key_ev('k', false), key_ev('a', false)],
            vec![key_ev('k', false), key_ev('>', false)],
            vec![key_ev('v', false)],
            vec![key_ev('i', false)], // waiting sign when old order is on
            vec![key_ev('k', false), key_ev('i', false)],
            vec![key_ev('r', false)],
            vec![key_ev('\'', false)],
            vec![key_ev('k', true)],
            vec![key_ev('k', false), key_ev('\\', false)],
            vec![key_ev(';', false)],
        ];
        let ph_states: Vec<Vec<Ev>> = vec![
            vec![],
            vec![Ev::ch('a')],
            vec![Ev::ch('a'), Ev::ch('s')],
            vec![Ev::ch(':')],
            vec![Ev::ch('a'), Ev::ch(':')],
            vec![Ev::ch('a'), Ev::ch('`')],
            vec![Ev::ch('(')],
            vec![Ev::ch('('), Ev::ch('a')],
            vec![Ev::ch('s'), Ev::ch('e'), Ev::ch('r')],
            vec![Ev::ch('a'), Ev::Bs],
            vec![Ev::ch('a'), Ev::Commit(1)],
            vec![Ev::ch(':'), Ev::ch(')')],
        ];
        // jobs: (is_phonetic, option bits)
        let mut jobs: Vec<(bool, u32)> = vec![];
        for bits in 0..16u32 {
            jobs.push((true, bits));
        }
        for bits in 0..(1u32 << 10) {
            // suggestions on needs a replay per key press (the scratch list is state): explore it
            // for the 32 settings of {english, kar, karorder, ansi, smart} with the other helpers on
            let fsugg = bits & 2 != 0;
            if fsugg && (bits & (4 | 8 | 32 | 64)) != (4 | 8 | 32 | 64) {
                continue;
            }
            jobs.push((false, bits));
        }
        let count = AtomicU64::new(0);
        par_for(
            jobs.len(),
            1,
            |w| scratch_xdg(&format!("c01b-{}", w)),
            |xdg, idx| {
                let (ph, bits) = jobs[idx];
                let (o, sts) = if ph {
                    let mut o = Opts::phonetic(&tiny, xdg);
                    o.english = bits & 1 != 0;
                    o.psugg = bits & 2 != 0;
                    o.ansi = bits & 4 != 0;
                    o.smart = bits & 8 != 0;
                    (o, &ph_states)
                } else {
                    // english, fsugg, vowel, chandra, kar, reph, numpad, karorder, ansi, smart
                    let mut o = Opts::fixed(&layout, &tiny, xdg);
                    o.english = bits & 1 != 0;
                    o.fsugg = bits & 2 != 0;
                    o.vowel = bits & 4 != 0;
                    o.chandra = bits & 8 != 0;
                    o.kar = bits & 16 != 0;
                    o.reph = bits & 32 != 0;
                    o.numpad = bits & 64 != 0;
                    o.karorder = bits & 128 != 0;
                    o.ansi = bits & 256 != 0;
                    o.smart = bits & 512 != 0;
                    (o, &fixed_states)
                };
                let mut ctx = Ctx::new(&o).expect("ctx");
                let files = BTreeMap::new();
                let mut n = 0u64;
                for st in sts.iter() {
                    // reach the state once to learn whether it is reachable without failure
                    let r = histgraph::replay(&mut ctx, &files, st);
                    if r.failed_at.is_some() {
                        continue; // reported by the graph searches
                    }
                    let fx = if ph { None } else { Some(fxgraph::read_state(&ctx)) };
                    for k in KEYS {
                        for m in 0..4u8 {
                            for sel in [0u8, 1, 255] {
                                // selection must be valid for the shown list: 1 and 255 only when long enough
                                let len = r.shown.as_ref().map(|x| x.len()).unwrap_or(0);
                                if ph && sel as usize >= len.max(1) {
                                    continue;
                                }
                                match (&fx, o.fsugg) {
                                    (Some(s), false) => fxgraph::restore(&ctx, s),
                                    _ => {
                                        histgraph::replay(&mut ctx, &files, st);
                                    }
                                }
                                let ev = Ev::Key { code: k.code, m, sel };
                                n += 1;
                                if let Err(f) = ctx.apply(&ev) {
                                    let mut evs = st.clone();
                                    evs.push(ev);
                                    report.add(fail_violation("C01", &f, &ctx.opts, &evs));
                                }
                            }
                        }
                    }
                }
                count.fetch_add(n, Ordering::Relaxed);
            },
            |_| (),
        );
        transitions += count.load(Ordering::Relaxed);
        times.insert("b_every_key_everywhere".into(), json!(t_part.elapsed().as_secs_f64()));
        t_part = std::time::Instant::now();
        parts.insert("b_every_key_everywhere".into(), json!({"configurations": jobs.len(), "fixed_states": fixed_states.len(), "phonetic_states": ph_states.len(), "key_presses": count.load(Ordering::Relaxed)}));
    }

    // ---------- (c) phonetic history graph ----------
    {
        let mut keys: Vec<Ev> = "aerso:)`'1".chars().map(Ev::ch).collect();
        // the full stop is pressed with the selection byte 255 ("any selection byte" is in contract; a selection-preserving
        // punctuation key hands the byte on, and later events - commits of every index among them - meet it)
        keys.push(Ev::Key { code: crate::keys::code_for_char('.').unwrap(), m: 0, sel: 255 });
        keys.push(Ev::key(crate::keys::by_name("VC_KP_ENTER").unwrap().code));
        keys.push(Ev::key(crate::keys::by_name("VC_KP_EQUALS").unwrap().code));
        let depth = if thorough { 5 } else { 4 };
        let mut total = HistStats::default();
        let mut cfgs: Vec<(Opts, usize)> = vec![];
        for bits in 0..16u32 {
            let mut o = Opts::phonetic(&tiny, "");
            o.english = bits & 1 != 0;
            o.psugg = bits & 2 != 0;
            o.ansi = bits & 4 != 0;
            o.smart = bits & 8 != 0;
            // (quick tier: one event less for the configurations without a candidate list)
            let d = if o.psugg || thorough { depth } else { depth - 1 };
            cfgs.push((o, d));
        }
        for english in [false, true] {
            let mut o = Opts::phonetic(&real_db(), "");
            o.english = english;
            cfgs.push((o, depth - 1));
        }
        let n_cfg = cfgs.len();
        for (ci, (o, d)) in cfgs.into_iter().enumerate() {
            let same = Ev::Update(Box::new(o.clone()));
            let st = histgraph::bfs(
                |w| {
                    let mut o = o.clone();
                    o.xdg = scratch_xdg(&format!("c01c-{}-{}", ci, w));
                    Ctx::new(&o).expect("ctx")
                },
                &BTreeMap::new(),
                &[],
                d,
                |_h, shown, ctx| {
                    let mut extra = vec![Ev::Restart];
                    if !ctx.ongoing() {
                        // update-engine is in contract while idle: to the same configuration and to each single option flip
                        // of the current one (a learned state meets another option setting)
                        let _ = &same;
                        extra.extend(idle_updates(&ctx.opts, if thorough { 4 } else { 2 }));
                    }
                    enabled_with_commits(&keys, shown, &extra)
                },
                |ctx, step| {
                    if let Err(f) = step.out {
                        let mut evs = step.hist.to_vec();
                        evs.push(step.ev.clone());
                        report.add(fail_violation("C01", f, &ctx.opts, &evs));
                    } else if let (Ok(Out::Sugg(r)), 2) = (step.out, step.hist.len()) {
                        if r.len() > 2 {
                            samples.offer(|| json!({"part": "c", "flags": ctx.opts.flags(), "history": hist_short(step.hist), "event": step.ev.short(), "result": r.to_json()}));
                        }
                    }
                },
                // a Restart in the middle of a composition is not an API event sequence a
                // front-end produces with a live word; allow it only when idle
                |step| !(matches!(step.ev, Ev::Restart) && step.ongoing_before),
            );
            merge_h(&mut total, &st);
        }
        // (c') the same search started from every state "one word of <= 2 characters typed and
        // any candidate committed" (unusual learned entries), English off and on
        let mut learned_total = HistStats::default();
        let mut n_prefix = 0usize;
        for english in [false, true] {
            let mut o = Opts::phonetic(&tiny, "");
            o.english = english;
            // enumerate the prefixes with a scratch context
            let mut prefixes: Vec<Vec<Ev>> = vec![];
            {
                let mut oo = o.clone();
                oo.xdg = scratch_xdg("c01c-prefix");
                let mut ctx = Ctx::new(&oo).expect("ctx");
                let sigma: Vec<char> = "as:)er'".chars().collect();
                let mut words: Vec<Vec<char>> = sigma.iter().map(|&c| vec![c]).collect();
                for &a in &sigma {
                    for &b in &sigma {
                        words.push(vec![a, b]);
                    }
                }
                for w in words {
                    let typed: Vec<Ev> = w.iter().map(|&c| Ev::ch(c)).collect();
                    let r = histgraph::replay(&mut ctx, &BTreeMap::new(), &typed);
                    if r.failed_at.is_some() {
                        continue;
                    }
                    let len = r.shown.as_ref().map(|x| x.len()).unwrap_or(0);
                    for i in 0..len {
                        let mut h = typed.clone();
                        h.push(Ev::Commit(i));
                        prefixes.push(h);
                    }
                }
            }
            n_prefix += prefixes.len();
            let st = histgraph::bfs(
                |w| {
                    let mut o = o.clone();
                    o.xdg = scratch_xdg(&format!("c01cl-{}-{}", english, w));
                    Ctx::new(&o).expect("ctx")
                },
                &BTreeMap::new(),
                &prefixes,
                if thorough { 3 } else { 2 },
                |_h, shown, ctx| {
                    let extra = if !ctx.ongoing() { idle_updates(&ctx.opts, 4) } else { vec![] };
                    enabled_with_commits(&keys, shown, &extra)
                },
                |ctx, step| {
                    if let Err(f) = step.out {
                        let mut evs = step.hist.to_vec();
                        evs.push(step.ev.clone());
                        report.add(fail_violation("C01", f, &ctx.opts, &evs));
                    }
                },
                |_| true,
            );
            merge_h(&mut learned_total, &st);
        }
        states += learned_total.states;
        transitions += learned_total.transitions;
        parts.insert("c2_phonetic_graph_from_learned_states".into(), json!({"learning_prefixes": n_prefix, "extra_depth": if thorough { 3 } else { 2 }, "states": learned_total.states, "transitions": learned_total.transitions, "failed": learned_total.failed_transitions}));
        states += total.states;
        transitions += total.transitions;
        times.insert("c_phonetic_history_graph".into(), json!(t_part.elapsed().as_secs_f64()));
        t_part = std::time::Instant::now();
        parts.insert("c_phonetic_history_graph".into(), json!({"configurations": n_cfg, "depth": depth, "keys": keys.len(), "states": total.states, "transitions": total.transitions, "replayed_events": total.replayed_events, "failed": total.failed_transitions, "distinct_outcomes": total.distinct_outcomes}));
    }

    // ---------- (d) long words ----------
    {
        let n = if thorough { 300 } else { 100 };
        let units = ["a", "o", "rri", "kkhm", "ngkkh", "chchh", "k`", "a:", "(", "ae.r"];
        let maxt = Mutex::new(0f64);
        let count = AtomicU64::new(0);
        par_for(
            units.len() * 2,
            1,
            |w| scratch_xdg(&format!("c01d-{}", w)),
            |xdg, idx| {
                let unit = units[idx / 2];
                let mut o = Opts::phonetic(&real_db(), xdg);
                o.english = true;
                o.psugg = idx % 2 == 0;
                let mut ctx = Ctx::new(&o).expect("ctx");
                ctx.with_pre = false;
                let mut evs = vec![];
                let mut worst = 0f64;
                'outer: while evs.len() < n {
                    for c in unit.chars() {
                        let ev = Ev::ch(c);
                        evs.push(ev.clone());
                        let t = std::time::Instant::now();
                        let r = ctx.apply(&ev);
                        worst = worst.max(t.elapsed().as_secs_f64());
                        count.fetch_add(1, Ordering::Relaxed);
                        if let Err(f) = r {
                            let mut v = fail_violation("C01", &f, &ctx.opts, &evs[evs.len().saturating_sub(6)..]);
                            v = v.feat("long_word_unit", unit).feat("length", evs.len().to_string());
                            v.detail = format!("after {} characters of repeated {:?}: {}", evs.len(), unit, v.detail);
                            report.add(v);
                            break 'outer;
                        }
                    }
                }
                let mut g = maxt.lock().unwrap();
                *g = g.max(worst);
            },
            |_| (),
        );
        transitions += count.load(Ordering::Relaxed);
        times.insert("d_long_words".into(), json!(t_part.elapsed().as_secs_f64()));
        t_part = std::time::Instant::now();
        parts.insert("d_long_words".into(), json!({"families": units, "length": n, "key_presses": count.load(Ordering::Relaxed), "slowest_event_s": *maxt.lock().unwrap(), "watchdog_s": crate::drv::SLOW_S}));
    }

    let mut ev = Evidence::new("C01", &report.tier, "model_checking");
    ev.set("states", states);
    ev.set("transitions", transitions);
    ev.set("traces_validated_against_impl", transitions);
    ev.set("parts", serde_json::Value::Object(parts));
    ev.set("part_wall_s", serde_json::Value::Object(times));
    let _ = t_part;
    ev.set("samples", samples.take());
    ev.set("explanation", "every transition is a real API call under catch_unwind followed by a complete read-out of the returned suggestion; oracle = returns normally within the watchdog");
    ev.assume("a panic caught at the Rust API boundary is exactly an abort at the extern \"C\" boundary");
    ev.assume("alphabets hold one representative key per character class; (b) presses every published key from representative states only");
    ev
}
