//! C02 — every returned suggestion is self-consistent and fully retrievable.
//!
//! Oracle on every returned suggestion: a list has >= 1 candidate; the previously-selected
//! index is < length whenever the selection byte passed was valid for the list shown before;
//! the auxiliary text equals the in-progress composition (phonetic: the raw typed text tracked
//! by the harness; fixed: the text of a twin context with suggestions off fed the same
//! events); every index is readable as candidate and as pre-edit text; a single string is
//! readable at index 0.
//!  (A) phonetic, real data: every word of <= 4 letters over {c,o,l,a,s,h} followed by each of
//!      the 13 selection-preserving punctuation keys (and the back-tick) with EVERY selection
//!      byte valid for the list shown, then a second punctuation key likewise;
//!  (B) phonetic history graph (tiny data) with all valid selection bytes on punctuation keys;
//!  (C) fixed history graph with suggestions on and a suggestions-off twin.

use crate::drv::{fixture, hist_short, probhat, real_db, scratch_xdg, Ctx, Ev, Fail, Opts, Out, Rend};
use crate::histgraph::{self, HistStats};
use crate::par::par_for;
use crate::props::c01::fail_violation;
use crate::props::c12::key_ev;
use crate::report::{Evidence, Report, Samples, Violation};
use serde_json::json;
use std::collections::BTreeMap;
use std::sync::atomic::{AtomicU64, Ordering};

pub const PRESERVING: &str = ".?!,:;-_)}]'\"";

/// the raw text a phonetic front-end has typed so far in the current word
pub fn typed_text(hist: &[Ev]) -> String {
    let mut s = String::new();
    for e in hist {
        match e {
            Ev::Key { code, .. } => {
                if let Some(c) = crate::keys::by_code(*code).and_then(|k| k.ch) {
                    s.push(c);
                }
            }
            Ev::Bs => {
                s.pop();
            }
            Ev::CtrlBs | Ev::Commit(_) | Ev::Finish => s.clear(),
            Ev::Update(_) | Ev::Restart => {}
        }
    }
    s
}

/// The structural part of the oracle (everything except the auxiliary-text clause).
pub fn check_shape(r: &Rend, sel_was_valid: bool) -> Option<(&'static str, String)> {
    if let Rend::Full { items, sel, pre, .. } = r {
        if items.is_empty() {
            return Some(("empty-list", "list-style suggestion without candidates".into()));
        }
        if sel_was_valid && *sel >= items.len() {
            return Some(("index-out-of-range", format!("previously selected index {} for a list of {}: {:?}", sel, items.len(), items)));
        }
        if pre.len() != items.len() {
            return Some(("pre-edit-count", "not every index readable as pre-edit text".into()));
        }
    }
    None
}

/// Violation for a failed shape check, with the features known-finding predicates use.
pub fn shape_violation(kind: &str, detail: String, opts: &Opts, hist: &[Ev], r: &Rend) -> Violation {
    let mut v = Violation::new("C02", kind, kind).opts(opts).events(hist).feat("typed", typed_text(hist)).detail(detail);
    if let Some(Ev::Key { code, sel, .. }) = hist.last() {
        let ch = crate::keys::by_code(*code).and_then(|k| k.ch).unwrap_or('\0');
        v = v
            .feat("last_key_preserving", (PRESERVING.contains(ch)).to_string())
            .feat("sel_echoed", (r.sel() == *sel as usize).to_string())
            .feat("passed_sel", sel.to_string());
    }
    v
}

pub fn run(report: &Report, thorough: bool) -> Evidence {
    let tiny = fixture("tiny_db");
    let layout = fixture("layout_synth.json");
    let samples = Samples::new(8);
    let mut parts = serde_json::Map::new();
    let checked = AtomicU64::new(0);
    let mut states = 0u64;
    let mut transitions = 0u64;

    // ---------------- (A) ----------------
    if crate::par::part_enabled("A") {
        let letters: Vec<char> = "colash".chars().collect();
        let maxw = if thorough { 5 } else { 4 };
        // (the second punctuation level is explored for words of <= 2 letters in the quick tier)
        let mut words: Vec<String> = vec![String::new()];
        let mut i = 0;
        while i < words.len() {
            if words[i].len() < maxw {
                for &c in &letters {
                    let mut w = words[i].clone();
                    w.push(c);
                    words.push(w);
                }
            }
            i += 1;
        }
        let puncts: Vec<char> = format!("{}`", PRESERVING).chars().collect();
        let cfgs: Vec<(bool, bool, bool)> = vec![(false, false, true), (true, false, true), (true, false, false), (false, true, true)];
        let n_events = AtomicU64::new(0);
        let n_words = words.len();
        par_for(
            words.len() * cfgs.len(),
            2,
            |w| (scratch_xdg(&format!("c02a-{}", w)), std::collections::HashMap::<usize, Ctx>::new()),
            |st, idx| {
                let (xdg, ctxs) = st;
                let (english, ansi, smart) = cfgs[idx % cfgs.len()];
                let word = &words[idx / cfgs.len()];
                let ctx = ctxs.entry(idx % cfgs.len()).or_insert_with(|| {
                    let mut o = Opts::phonetic(&real_db(), xdg);
                    o.english = english;
                    o.ansi = ansi;
                    o.smart = smart;
                    Ctx::new(&o).expect("ctx")
                });
                let files = BTreeMap::new();
                let base: Vec<Ev> = word.chars().map(Ev::ch).collect();
                let r0 = histgraph::replay(ctx, &files, &base);
                if r0.failed_at.is_some() {
                    return;
                }
                let opts = ctx.opts.clone();
                // One long in-contract history per word: the variations are separated by a
                // backspace (which re-shows the list of the shorter text). `short` is the direct
                // history of the same composition, used for the report when it reproduces alone.
                let mut long: Vec<Ev> = base.clone();
                let judge = |ctx: &mut Ctx, long: &[Ev], short: &[Ev], out: &Result<Out, Fail>| -> Option<Rend> {
                    n_events.fetch_add(1, Ordering::Relaxed);
                    let problem: Option<Violation> = match out {
                        Err(f) => Some(fail_violation("C02", f, &opts, short)),
                        Ok(Out::Sugg(r)) => {
                            checked.fetch_add(1, Ordering::Relaxed);
                            let t = typed_text(long);
                            if let Some((kind, d)) = check_shape(r, true) {
                                Some(shape_violation(kind, d, &opts, short, r))
                            } else {
                                match r {
                                    Rend::Full { aux, .. } if *aux != t => Some(Violation::new("C02", "aux-mismatch", "aux-mismatch").opts(&opts).events(short).detail(format!("auxiliary text {:?}, typed text {:?}", aux, t))),
                                    _ => None,
                                }
                            }
                        }
                        Ok(Out::Unit) => None,
                    };
                    if let Some(mut v) = problem {
                        // does the short history reproduce it on a fresh method? otherwise report the long one
                        let rr = histgraph::replay(ctx, &files, &short[..short.len() - 1]);
                        let same = rr.failed_at.is_none() && {
                            let o2 = ctx.apply(short.last().unwrap());
                            format!("{:?}", o2.as_ref().map_err(|e| format!("{:?}", e))) == format!("{:?}", out.as_ref().map_err(|e| format!("{:?}", e)))
                        };
                        if !same {
                            v = v.events(long).feat("only_after_long_history", "true");
                        }
                        report.add(v);
                        // restore the long history's state
                        histgraph::replay(ctx, &files, long);
                    }
                    match out {
                        Ok(Out::Sugg(r)) => Some(r.clone()),
                        _ => None,
                    }
                };
                let mut len0 = r0.shown.as_ref().map(|r| r.len()).unwrap_or(0).max(1);
                for &p in &puncts {
                    let mut sel = 0;
                    while sel < len0 {
                        let ev = Ev::Key { code: crate::keys::code_for_char(p).unwrap(), m: 0, sel: sel as u8 };
                        let mut short = base.clone();
                        short.push(ev.clone());
                        long.push(ev.clone());
                        let out = ctx.apply(&ev);
                        let r1 = judge(ctx, &long, &short, &out);
                        if out.is_err() {
                            return;
                        }
                        if let Some(r1) = &r1 {
                            if (sel == 0 || sel + 1 == len0) && word.len() <= if thorough { 3 } else { 2 } {
                                let mut len1 = r1.len().max(1);
                                for &q in &puncts {
                                    let mut sel2 = 0;
                                    while sel2 < len1 {
                                        let ev2 = Ev::Key { code: crate::keys::code_for_char(q).unwrap(), m: 0, sel: sel2 as u8 };
                                        let mut short2 = short.clone();
                                        short2.push(ev2.clone());
                                        long.push(ev2.clone());
                                        let out2 = ctx.apply(&ev2);
                                        judge(ctx, &long, &short2, &out2);
                                        if out2.is_err() {
                                            return;
                                        }
                                        long.push(Ev::Bs);
                                        let outb = ctx.apply(&Ev::Bs);
                                        let rb = judge(ctx, &long, &long.clone(), &outb);
                                        if outb.is_err() {
                                            return;
                                        }
                                        len1 = rb.map(|r| r.len()).unwrap_or(0).max(1);
                                        sel2 += 1;
                                    }
                                }
                            }
                            if sel + 1 == len0 && len0 > 6 {
                                samples.offer(|| json!({"part": "A", "flags": opts.flags(), "history": hist_short(&short), "list_before": len0, "result": r1.to_json()}));
                            }
                        }
                        long.push(Ev::Bs);
                        let outb = ctx.apply(&Ev::Bs);
                        let rb = judge(ctx, &long, &long.clone(), &outb);
                        if outb.is_err() {
                            return;
                        }
                        len0 = rb.map(|r| r.len()).unwrap_or(0).max(1);
                        sel += 1;
                    }
                }
            },
            |_| (),
        );
        transitions += n_events.load(Ordering::Relaxed);
        parts.insert("A_words_then_punctuation_every_selection".into(), json!({"words": n_words, "max_word_len": maxw, "configurations": cfgs.len(), "punctuation_keys": puncts.len(), "key_events_judged": n_events.load(Ordering::Relaxed)}));
    }

    // ---------------- (B) ----------------
    if crate::par::part_enabled("B") {
        let letters: Vec<Ev> = "ase".chars().map(Ev::ch).collect();
        let puncts: Vec<char> = ".:)'`(".chars().collect();
        let depth = if thorough { 5 } else { 4 };
        let mut total = HistStats::default();
        for bits in 0..8u32 {
            let mut o = Opts::phonetic(&tiny, "");
            o.english = bits & 1 != 0;
            o.ansi = bits & 2 != 0;
            o.psugg = bits & 4 == 0;
            let st = histgraph::bfs_shadow(
                |w| {
                    let mut o = o.clone();
                    o.xdg = scratch_xdg(&format!("c02b-{}-{}", bits, w));
                    Ctx::new(&o).expect("ctx")
                },
                &BTreeMap::new(),
                &[],
                depth,
                |_h, shown, _ctx| {
                    let len = shown.map(|r| r.len()).unwrap_or(0).max(1);
                    let cur = shown.map(|r| r.sel().min(len - 1)).unwrap_or(0);
                    let mut v = vec![];
                    for l in &letters {
                        if let Ev::Key { code, m, .. } = l {
                            v.push(Ev::Key { code: *code, m: *m, sel: cur as u8 });
                        }
                    }
                    for &p in &puncts {
                        for sel in 0..len {
                            v.push(Ev::Key { code: crate::keys::code_for_char(p).unwrap(), m: 0, sel: sel as u8 });
                        }
                    }
                    v.push(Ev::Bs);
                    v.push(Ev::Finish);
                    // commit of every candidate (the composition restarts; the next list's auxiliary text must too)
                    if let Some(r) = shown {
                        for i in 0..r.len().max(1) {
                            v.push(Ev::Commit(i));
                        }
                    }
                    v
                },
                |ctx, step| {
                    let mut h = step.hist.to_vec();
                    h.push(step.ev.clone());
                    match step.out {
                        Err(f) => {
                            report.add(fail_violation("C02", f, &ctx.opts, &h));
                        }
                        Ok(Out::Sugg(r)) => {
                            checked.fetch_add(1, Ordering::Relaxed);
                            if let Some((kind, d)) = check_shape(r, true) {
                                report.add(shape_violation(kind, d, &ctx.opts, &h, r));
                            }
                            let t = typed_text(&h);
                            match r {
                                Rend::Full { aux, .. } if *aux != t => {
                                    report.add(Violation::new("C02", "aux-mismatch", "aux-mismatch").opts(&ctx.opts).events(&h).detail(format!("auxiliary text {:?}, typed text {:?}", aux, t)));
                                }
                                _ => {}
                            }
                        }
                        Ok(Out::Unit) => {}
                    }
                },
                |_| true,
                |h| format!("composing:{}", typed_text(h)),
            );
            total.states += st.states;
            total.transitions += st.transitions;
            total.distinct_outcomes += st.distinct_outcomes;
        }
        states += total.states;
        transitions += total.transitions;
        parts.insert("B_phonetic_history_graph".into(), json!({"configurations": 8, "depth": depth, "states": total.states, "transitions": total.transitions, "distinct_outcomes": total.distinct_outcomes}));
    }

    // ---------------- (C) ----------------
    if crate::par::part_enabled("C") {
        let keys: Vec<Ev> = [('k', false), ('r', false), ('a', false), ('i', false), ('u', false), ('/', false), ('>', false), ('v', false), ('\'', false), (')', false), (';', false), ('k', true), ('z', true), ('e', true), ('j', true), ('d', true)]
            .iter()
            .map(|&(c, g)| key_ev(c, g))
            .collect();
        let depth = if thorough { 4 } else { 3 };
        let mut total = HistStats::default();
        let mut n_cfg = 0;
        for bits in 0..16u32 {
            n_cfg += 1;
            let mut o = Opts::fixed(&layout, &tiny, "");
            o.fsugg = true;
            o.english = bits & 1 != 0;
            o.ansi = bits & 2 != 0;
            o.kar = bits & 4 != 0;
            if bits & 8 != 0 {
                o.karorder = true;
                o.vowel = true;
                o.chandra = true;
                o.reph = true;
            }
            thread_local! {
                static TWIN: std::cell::RefCell<Option<(String, Ctx)>> = const { std::cell::RefCell::new(None) };
            }
            let st = histgraph::bfs(
                |w| {
                    let mut o = o.clone();
                    o.xdg = scratch_xdg(&format!("c02c-{}-{}", bits, w));
                    Ctx::new(&o).expect("ctx")
                },
                &BTreeMap::new(),
                &[],
                depth,
                |_h, shown, _ctx| {
                    let mut v = keys.clone();
                    v.push(Ev::Bs);
                    v.push(Ev::Finish);
                    if let Some(r) = shown {
                        v.push(Ev::Commit(0));
                        if r.len() > 1 {
                            v.push(Ev::Commit(r.len() - 1));
                        }
                    }
                    v
                },
                |ctx, step| {
                    let mut h = step.hist.to_vec();
                    h.push(step.ev.clone());
                    match step.out {
                        Err(f) => {
                            report.add(fail_violation("C02", f, &ctx.opts, &h));
                        }
                        Ok(Out::Sugg(r)) => {
                            checked.fetch_add(1, Ordering::Relaxed);
                            if let Some((kind, d)) = check_shape(r, true) {
                                report.add(shape_violation(kind, d, &ctx.opts, &h, r));
                            }
                            // twin with suggestions off receives the same events
                            let twin_text = TWIN.with(|t| {
                                let mut t = t.borrow_mut();
                                let key = ctx.opts.flags();
                                if t.as_ref().map(|(k, _)| *k != key).unwrap_or(true) {
                                    let mut o2 = ctx.opts.clone();
                                    o2.fsugg = false;
                                    o2.ansi = false;
                                    o2.xdg = format!("{}-twin", ctx.opts.xdg);
                                    std::fs::create_dir_all(o2.user_dir()).expect("twin dir");
                                    *t = Some((key, Ctx::new(&o2).expect("twin")));
                                }
                                let (_, twin) = t.as_mut().unwrap();
                                let r = histgraph::replay(twin, &BTreeMap::new(), &h);
                                match r.failed_at {
                                    Some(_) => None,
                                    None => Some(r.shown.map(|x| x.text()).unwrap_or_default()),
                                }
                            });
                            if let Some(tt) = twin_text {
                                match r {
                                    Rend::Full { aux, .. } if *aux != tt => {
                                        report.add(Violation::new("C02", "aux-mismatch", "aux-mismatch").opts(&ctx.opts).events(&h).detail(format!("auxiliary text {:?}, composed text of the suggestions-off twin {:?}", aux, tt)));
                                    }
                                    Rend::Single { .. } => {
                                        report.add(Violation::new("C02", "single-with-suggestions-on", "single-with-suggestions-on").opts(&ctx.opts).events(&h).detail("single-string suggestion although dictionary suggestions are on".to_string()));
                                    }
                                    _ => {}
                                }
                            }
                            if step.hist.len() == 2 && r.len() > 2 {
                                samples.offer(|| json!({"part": "C", "flags": ctx.opts.flags(), "history": hist_short(&h), "result": r.to_json()}));
                            }
                        }
                        Ok(Out::Unit) => {}
                    }
                },
                |_| true,
            );
            total.states += st.states;
            total.transitions += st.transitions;
            total.distinct_outcomes += st.distinct_outcomes;
        }
        states += total.states;
        transitions += total.transitions;
        parts.insert("C_fixed_history_graph_with_twin".into(), json!({"configurations": n_cfg, "depth": depth, "states": total.states, "transitions": total.transitions, "distinct_outcomes": total.distinct_outcomes}));
    }

    // ---------------- (D) key sweep ----------------
    // every published key after short texts: phonetic (8 configurations, real data) - the auxiliary text is the text typed
    // so far plus the key's character from the harness's own key table; fixed (Probhat and the synthetic layout, both
    // planes) - the auxiliary text is the composed text of a twin with the suggestion list off.
    if crate::par::part_enabled("D") {
        let swept = AtomicU64::new(0);
        let pres = ["", "k", "kO", "k:", "(a", "1"];
        par_for(
            8,
            1,
            |w| scratch_xdg(&format!("c02d-{}", w)),
            |xdg, bits| {
                let mut o = Opts::phonetic(&real_db(), xdg);
                o.english = bits & 1 != 0;
                o.ansi = bits & 2 != 0;
                o.smart = bits & 4 != 0;
                let mut ctx = Ctx::new(&o).expect("ctx");
                for pre in pres {
                    for kd in crate::keys::KEYS.iter() {
                        for m in [0u8, 1, 2] {
                            let mut h: Vec<Ev> = pre.chars().map(Ev::ch).collect();
                            h.push(Ev::Key { code: kd.code, m, sel: 0 });
                            let r = histgraph::replay(&mut ctx, &BTreeMap::new(), &h);
                            if let Some((i, f)) = r.failed_at {
                                report.add(fail_violation("C02", &f, &o, &h[..=i.min(h.len() - 1)]));
                                continue;
                            }
                            swept.fetch_add(1, Ordering::Relaxed);
                            let text = typed_text(&h);
                            match r.shown {
                                Some(rend) => {
                                    if let Some((kind, d)) = check_shape(&rend, true) {
                                        report.add(shape_violation(kind, d, &o, &h, &rend));
                                    }
                                    if let Rend::Full { aux, .. } = &rend {
                                        if *aux != text {
                                            report.add(Violation::new("C02", "aux-mismatch", "aux-mismatch:key-sweep").opts(&o).events(&h).feat("key", kd.name).detail(format!("auxiliary text {:?}, typed text {:?}", aux, text)));
                                        }
                                    }
                                }
                                None => {}
                            }
                        }
                    }
                }
            },
            |_| (),
        );
        let fixed_layouts = [probhat(), layout.clone()];
        par_for(
            fixed_layouts.len() * 8,
            1,
            |w| scratch_xdg(&format!("c02df-{}", w)),
            |xdg, idx| {
                let bits = idx / fixed_layouts.len();
                let mut o = Opts::fixed(&fixed_layouts[idx % fixed_layouts.len()], &tiny, xdg);
                o.fsugg = true;
                o.english = bits & 1 != 0;
                o.numpad = bits & 2 != 0;
                if bits & 4 != 0 {
                    o.vowel = true;
                    o.chandra = true;
                    o.kar = true;
                    o.reph = true;
                }
                let mut o2 = o.clone();
                o2.fsugg = false;
                o2.xdg = format!("{}-twin", xdg);
                std::fs::create_dir_all(o2.user_dir()).expect("twin dir");
                let mut ctx = Ctx::new(&o).expect("ctx");
                let mut twin = Ctx::new(&o2).expect("twin");
                for pre in ["", "k", "k/", "ka", "\"k"] {
                    for kd in crate::keys::KEYS.iter() {
                        for m in [0u8, 2] {
                            let mut h: Vec<Ev> = pre.chars().map(Ev::ch).collect();
                            h.push(Ev::Key { code: kd.code, m, sel: 0 });
                            let r = histgraph::replay(&mut ctx, &BTreeMap::new(), &h);
                            if let Some((i, f)) = r.failed_at {
                                report.add(fail_violation("C02", &f, &o, &h[..=i.min(h.len() - 1)]));
                                continue;
                            }
                            let t = histgraph::replay(&mut twin, &BTreeMap::new(), &h);
                            if t.failed_at.is_some() {
                                continue;
                            }
                            swept.fetch_add(1, Ordering::Relaxed);
                            let tt = t.shown.map(|x| x.text()).unwrap_or_default();
                            if let Some(rend) = r.shown {
                                if let Some((kind, d)) = check_shape(&rend, true) {
                                    report.add(shape_violation(kind, d, &o, &h, &rend));
                                }
                                if let Rend::Full { aux, .. } = &rend {
                                    if *aux != tt {
                                        report.add(Violation::new("C02", "aux-mismatch", "aux-mismatch:key-sweep").opts(&o).events(&h).feat("key", kd.name).detail(format!("auxiliary text {:?}, composed text of the suggestions-off twin {:?}", aux, tt)));
                                    }
                                }
                            }
                        }
                    }
                }
            },
            |_| (),
        );
        let n = swept.load(Ordering::Relaxed);
        checked.fetch_add(n, Ordering::Relaxed);
        states += n;
        transitions += n;
        parts.insert("D_key_sweep".into(), json!({"presses": n, "phonetic_configurations": 8, "fixed_configurations": 16}));
    }

    // (E) the LARGEST lists, with a learned choice behind them. All lower-case words of <= 3 letters are typed once to find
    // the bases with the most candidates; for each of the top bases EVERY candidate index is committed in turn (new store
    // each time), and the base is then typed again followed by every suffix key of <= 2 letters: each list on the way
    // (20-40 candidates for the biggest ones, with the preselection coming from the learned base + suffix) is judged.
    if crate::par::part_enabled("E") {
        let dict = crate::data::Dict::load(&real_db());
        let az: Vec<char> = ('a'..='z').collect();
        let sizes: std::sync::Mutex<Vec<(usize, String)>> = std::sync::Mutex::new(vec![]);
        par_for(
            26,
            1,
            |w| scratch_xdg(&format!("c02e-{}", w)),
            |xdg, a| {
                let mut o = Opts::phonetic(&real_db(), xdg);
                o.english = true;
                crate::drv::clear_user_files(&o);
                let mut ctx = Ctx::new(&o).expect("ctx");
                ctx.with_pre = false;
                let mut local = vec![];
                for &b in &az {
                    for &c in &az {
                        let w: String = [az[a], b, c].iter().collect();
                        let _ = ctx.apply(&Ev::Finish);
                        let mut last = 0;
                        for ch in w.chars() {
                            if let Ok(r) = ctx.ch(ch) {
                                last = r.len();
                            }
                        }
                        local.push((last, w));
                    }
                }
                sizes.lock().unwrap().extend(local);
            },
            |_| (),
        );
        let mut sizes = sizes.into_inner().unwrap();
        sizes.sort_by(|a, b| b.0.cmp(&a.0).then(a.1.cmp(&b.1)));
        let nb = if thorough { 48 } else { 12 };
        let bases: Vec<(usize, String)> = sizes.into_iter().take(nb).collect();
        let mut sfx: Vec<&String> = dict.suffix.keys().filter(|k| k.len() <= 2).collect();
        sfx.sort();
        let judged = AtomicU64::new(0);
        let biggest = AtomicU64::new(0);
        // job = (base, candidate index)
        let jobs: Vec<(String, usize)> = bases.iter().flat_map(|(n, b)| (0..*n).map(move |i| (b.clone(), i))).collect();
        par_for(
            jobs.len(),
            1,
            |w| scratch_xdg(&format!("c02e2-{}", w)),
            |xdg, j| {
                let (base, i) = &jobs[j];
                let mut o = Opts::phonetic(&real_db(), xdg);
                o.english = true;
                crate::drv::clear_user_files(&o);
                let mut ctx = Ctx::new(&o).expect("ctx");
                let mut h: Vec<Ev> = base.chars().map(Ev::ch).collect();
                h.push(Ev::Commit(*i));
                for s in &sfx {
                    let mut hh = h.clone();
                    hh.extend(base.chars().chain(s.chars()).map(Ev::ch));
                    // the store is deleted and the history replayed from a new method each time
                    let mut shown: Option<Rend> = None;
                    if histgraph::fresh(&mut ctx, &BTreeMap::new()).is_err() {
                        continue;
                    }
                    for (k, e) in hh.iter().enumerate() {
                        match ctx.apply(e) {
                            Ok(Out::Sugg(r)) => {
                                judged.fetch_add(1, Ordering::Relaxed);
                                biggest.fetch_max(r.len() as u64, Ordering::Relaxed);
                                if let Some((kind, d)) = check_shape(&r, true) {
                                    report.add(shape_violation(kind, d, &o, &hh[..=k], &r).feat("learned_base", base.clone()));
                                }
                                if let Rend::Full { aux, .. } = &r {
                                    let text = typed_text(&hh[..=k]);
                                    if *aux != text {
                                        report.add(Violation::new("C02", "aux-mismatch", "aux-mismatch:large-lists").opts(&o).events(&hh[..=k]).detail(format!("auxiliary text {:?}, typed text {:?}", aux, text)));
                                    }
                                }
                                shown = Some(r);
                            }
                            Ok(_) => {}
                            Err(f) => {
                                report.add(fail_violation("C02", &f, &o, &hh[..=k]));
                                break;
                            }
                        }
                    }
                    let _ = shown;
                }
            },
            |_| (),
        );
        let n = judged.load(Ordering::Relaxed);
        checked.fetch_add(n, Ordering::Relaxed);
        states += n;
        transitions += n;
        parts.insert("E_largest_lists_with_learned_base".into(), json!({"bases": bases.iter().map(|(n, b)| format!("{}:{}", b, n)).collect::<Vec<_>>(), "suffix_keys": sfx.len(), "lists_judged": n, "longest_list": biggest.load(Ordering::Relaxed)}));
    }

    let mut ev = Evidence::new("C02", &report.tier, "model_checking");
    ev.set("states", states.max(1));
    ev.set("transitions", transitions.max(1));
    ev.set("traces_validated_against_impl", checked.load(Ordering::Relaxed));
    ev.set("parts", serde_json::Value::Object(parts));
    ev.set("samples", samples.take());
    ev.set("explanation", "every suggestion returned during the three explorations is read out completely (candidates, auxiliary text, preselection, pre-edit text of every index) and judged; selection bytes are enumerated over all indices valid for the list shown before the key");
    ev.assume("fixed mode: 'the composed Bengali text' is what a twin context with suggestions off composes from the same events");
    ev
}
