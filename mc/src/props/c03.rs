//! C03 — phonetic output is the Avro transliteration of exactly what was typed.
//!
//! Oracle: the harness's own okkhor parser applied to the parts of the typed text (split by
//! the statement's punctuation set; for arbitrary strings by the reference splitter). Every
//! string is typed key by key into a real context (depth-first with backspace, so every
//! returned suggestion on the way — also the ones after a backspace — is checked).

use crate::avro::{split_ref, split_simple, uncurl, Avro, PUNCT};
use crate::drv::{real_db, scratch_xdg, Ctx, Ev, Fail, Opts, Rend};
use crate::par::par_for;
use crate::props::c01::fail_violation;
use crate::report::{Evidence, Report, Samples, Violation};
use serde_json::json;
use std::sync::atomic::{AtomicU64, Ordering};

struct Dfs<'a> {
    ctx: Ctx,
    avro: &'a Avro,
    report: &'a Report,
    alphabet: &'a [char],
    checked: u64,
    events: u64,
    text: String,
    /// suggestions on: check the candidate clause; off: check the single string
    lists: bool,
    samples: &'a Samples,
    part: &'static str,
}

impl<'a> Dfs<'a> {
    fn hist(&self) -> Vec<Ev> {
        self.text.chars().map(Ev::ch).collect()
    }
    fn check(&mut self, r: &Rend, after_bs: bool) {
        self.checked += 1;
        let mut evs = self.hist();
        if after_bs {
            evs.push(Ev::ch('a'));
            evs.push(Ev::Bs);
        }
        judge_text(self.avro, self.report, self.samples, self.part, &self.ctx.opts, &evs, &self.text, r, self.lists);
    }
    fn fail(&mut self, f: &Fail, extra: Option<Ev>) {
        let mut evs = self.hist();
        if let Some(e) = extra {
            evs.push(e);
        }
        self.report.add(fail_violation("C03", f, &self.ctx.opts, &evs));
    }
    /// type every extension of the current text up to `depth` more characters
    fn rec(&mut self, depth: usize) {
        if depth == 0 {
            return;
        }
        for i in 0..self.alphabet.len() {
            let c = self.alphabet[i];
            self.events += 1;
            match self.ctx.ch(c) {
                Ok(r) => {
                    self.text.push(c);
                    self.check(&r, false);
                    self.rec(depth - 1);
                    self.events += 1;
                    match self.ctx.bs() {
                        Ok(rb) => {
                            self.text.pop();
                            if !self.text.is_empty() {
                                self.check(&rb, true);
                            }
                        }
                        Err(f) => {
                            self.fail(&f, Some(Ev::Bs));
                            self.text.pop();
                            self.resync();
                        }
                    }
                }
                Err(f) => {
                    self.fail(&f, Some(Ev::ch(c)));
                    self.resync();
                }
            }
        }
    }
    /// after a failure: rebuild the state for the current text
    fn resync(&mut self) {
        let _ = self.ctx.apply(&Ev::Finish);
        for c in self.text.clone().chars() {
            let _ = self.ctx.ch(c);
        }
    }
    /// type `s` key by key judging every prefix, then remove it again with backspaces judging every list shown again
    fn walk_word(&mut self, s: &str) {
        let base = self.text.chars().count();
        for c in s.chars() {
            self.events += 1;
            match self.ctx.ch(c) {
                Ok(r) => {
                    self.text.push(c);
                    self.check(&r, false);
                }
                Err(f) => {
                    self.fail(&f, Some(Ev::ch(c)));
                    self.resync();
                    break;
                }
            }
        }
        while self.text.chars().count() > base {
            self.events += 1;
            match self.ctx.bs() {
                Ok(rb) => {
                    self.text.pop();
                    if !self.text.is_empty() {
                        self.check(&rb, true);
                    }
                }
                Err(f) => {
                    self.fail(&f, Some(Ev::Bs));
                    self.text.pop();
                    self.resync();
                }
            }
        }
    }
    fn type_str(&mut self, s: &str) -> bool {
        for c in s.chars() {
            self.events += 1;
            match self.ctx.ch(c) {
                Ok(_) => self.text.push(c),
                Err(f) => {
                    self.fail(&f, Some(Ev::ch(c)));
                    return false;
                }
            }
        }
        true
    }
}

/// The oracle of C03 for one returned suggestion: `text` is what has been typed in the current word.
#[allow(clippy::too_many_arguments)]
fn judge_text(avro: &Avro, report: &Report, samples: &Samples, part: &str, opts: &Opts, evs: &[Ev], text: &str, r: &Rend, lists: bool) {
        if lists {
            let (p, w, t) = split_ref(&text, false);
            let exp = avro.tr_parts(&p, &w, &t);
            let items = r.items();
            if !items.iter().any(|c| uncurl(c) == uncurl(&exp)) {
                report.add(
                    Violation::new("C03", "transliteration-not-a-candidate", &format!("not-a-candidate:{}", part))
                        .opts(&opts)
                        .events(evs)
                        .feat("typed", text.to_string())
                        .detail(format!("typed {:?}: transliteration {:?} (parts {:?}|{:?}|{:?}) is not among {:?}", text, exp, p, w, t, items)),
                );
            } else if text.len() == 2 {
                samples.offer(|| json!({"part": part, "typed": text, "transliteration": exp, "candidates": items}));
            }
        } else {
            let (p, w, t) = split_simple(&text);
            let exp = avro.tr_parts(p, w, t);
            let got = match r {
                Rend::Single { text, .. } => text.clone(),
                Rend::Empty => String::new(),
                Rend::Full { .. } => "<list>".into(),
            };
            if got != exp {
                report.add(
                    Violation::new("C03", "wrong-transliteration", &format!("wrong-transliteration:{}", part))
                        .opts(&opts)
                        .events(evs)
                        .feat("typed", text.to_string())
                        .detail(format!("typed {:?}: got {:?}, Avro transliteration of the parts {:?}|{:?}|{:?} is {:?}", text, got, p, w, t, exp)),
                );
            } else if text.len() == 3 {
                samples.offer(|| json!({"part": part, "typed": text, "result": got}));
            }
            // ANSI only changes the read-out
            if let Rend::Single { text, pre } = r {
                if !opts.ansi && pre != text {
                    report.add(Violation::new("C03", "pre-edit-differs", "pre-edit-differs").opts(&opts).events(evs).detail(format!("pre-edit {:?} != text {:?} without ANSI", pre, text)));
                }
            }
        }
}

fn strings_upto(alpha: &[char], n: usize) -> Vec<String> {
    let mut v = vec![String::new()];
    let mut i = 0;
    while i < v.len() {
        if v[i].chars().count() < n {
            for &c in alpha {
                let mut s = v[i].clone();
                s.push(c);
                v.push(s);
            }
        }
        i += 1;
    }
    v
}

pub fn run(report: &Report, thorough: bool) -> Evidence {
    let avro = Avro::new();
    let samples = Samples::new(10);
    let checked = AtomicU64::new(0);
    let events = AtomicU64::new(0);
    let mut parts = serde_json::Map::new();
    let alnum: Vec<char> = ('a'..='z').chain('A'..='Z').chain('0'..='9').collect();
    let reduced: Vec<char> = "aoieukhrngsTO1".chars().collect();
    let all94: Vec<char> = (33u8..=126).map(|b| b as char).collect();
    let punct: Vec<char> = PUNCT.chars().collect();

    // generic runner: work items are (config index, prefix); each DFS explores `depth` below prefix
    let run_part = |name: &'static str, alphabet: &[char], prefixes: &[String], depth: usize, lists: bool, cfgs: &[Opts]| {
        let before = (checked.load(Ordering::Relaxed), events.load(Ordering::Relaxed));
        par_for(
            prefixes.len() * cfgs.len(),
            1,
            |w| scratch_xdg(&format!("c03-{}-{}", name, w)),
            |xdg, idx| {
                let mut o = cfgs[idx % cfgs.len()].clone();
                o.xdg = xdg.clone();
                let prefix = &prefixes[idx / cfgs.len()];
                // every second job reaches its configuration through update_engine from a context that was
                // created with the four options inverted (a live context must honour the new options)
                // (driver option `via_update`: created with every boolean option inverted, then update_engine)
                o.via_update = idx % 2 == 1;
                o.churn = idx % 4 == 2;
                // ... and every eighth is a context created for a fixed layout and switched to phonetic by update-engine
                o.via_switch = idx % 8 == 4;
                // candidate clause: every third job runs over a user auto-correct file with entries for short words of the walks
                // (one of them empty, one that transliterates to nothing): the plain transliteration stays a candidate next to them
                crate::drv::clear_user_files(&o);
                if lists && idx % 3 == 0 {
                    std::fs::write(o.user_autocorrect_file(), r#"{"a":"kha","k":"","s":"`","ak":"bangladesh","ka":"ko","as":"ash","1":"ek","aa":"a","sk":"skul","ami":"tumi","bd":"bangladesh"}"#).expect("user auto-correct");
                }
                let mut ctx = Ctx::new(&o).expect("ctx");
                ctx.with_pre = !lists;
                let mut d = Dfs { ctx, avro: &avro, report, alphabet, checked: 0, events: 0, text: String::new(), lists, samples: &samples, part: name };
                if d.type_str(prefix) {
                    d.rec(depth);
                }
                checked.fetch_add(d.checked, Ordering::Relaxed);
                events.fetch_add(d.events, Ordering::Relaxed);
            },
            |_| (),
        );
        (checked.load(Ordering::Relaxed) - before.0, events.load(Ordering::Relaxed) - before.1)
    };

    let off = |english: bool, smart: bool, ansi: bool| {
        let mut o = Opts::phonetic(&real_db(), "");
        o.psugg = false;
        o.english = english;
        o.smart = smart;
        o.ansi = ansi;
        o
    };
    let on = |english: bool, smart: bool| {
        let mut o = Opts::phonetic(&real_db(), "");
        o.psugg = true;
        o.english = english;
        o.smart = smart;
        o
    };

    // P1: every word over [A-Za-z0-9] of length <= 3, suggestions off
    if crate::par::part_enabled("P1") {
        let prefixes: Vec<String> = alnum.iter().map(|c| c.to_string()).collect();
        // the one-character words themselves are checked by a depth-1 walk from the empty prefix
        let (c0, _) = run_part("P1", &alnum, &[String::new()], 1, false, &[off(false, true, false)]);
        let (c, e) = run_part("P1", &alnum, &prefixes, 2, false, &[off(false, true, false), off(true, false, true)]);
        parts.insert("P1_alnum_words_len3_single_string".into(), json!({"alphabet": 62, "max_len": 3, "configurations": 2, "suggestions_checked": c + c0, "key_events": e}));
    }
    // P2: class-reduced alphabet, deeper
    if crate::par::part_enabled("P2") {
        let n = if thorough { 6 } else { 5 };
        let prefixes = strings_upto(&reduced, 2).into_iter().filter(|s| s.len() == 2).collect::<Vec<_>>();
        let (c, e) = run_part("P2", &reduced, &prefixes, n - 2, false, &[off(false, true, false)]);
        parts.insert("P2_class_reduced_words_single_string".into(), json!({"alphabet": reduced.iter().collect::<String>(), "max_len": n, "suggestions_checked": c, "key_events": e}));
    }
    // P3: words wrapped in every leading / trailing punctuation string
    if crate::par::part_enabled("P3") {
        let words = ["a", "k", "ka", "ami", "kOI", "rri", "t`", "x1", "9", "OU", "ng", "Sh", "bhalo", "kkh", "w", "Z", "aa", "oi", "e0", "q"];
        let nl = if thorough { 2 } else { 1 };
        let leads = strings_upto(&punct, nl);
        // work item: lead + word typed as prefix, then every trailing string by DFS
        let mut prefixes = vec![];
        for w in words.iter().filter(|w| !w.contains('`')) {
            for l in &leads {
                prefixes.push(format!("{}{}", l, w));
            }
        }
        let cfgs: Vec<Opts> = if thorough {
            vec![off(false, true, false)]
        } else {
            vec![off(false, true, false), off(true, false, false), off(false, true, true), off(true, false, true)]
        };
        let (c, e) = run_part("P3", &punct, &prefixes, nl, false, &cfgs);
        let mut extra = (0, 0);
        if thorough {
            // all option settings on the <=1 wrapping
            let leads1 = strings_upto(&punct, 1);
            let mut p1 = vec![];
            for w in words.iter().filter(|w| !w.contains('`')) {
                for l in &leads1 {
                    p1.push(format!("{}{}", l, w));
                }
            }
            let cfgs8: Vec<Opts> = (0..8).map(|b| off(b & 1 != 0, b & 2 != 0, b & 4 != 0)).collect();
            extra = run_part("P3", &punct, &p1, 1, false, &cfgs8);
        }
        parts.insert("P3_wrapped_words_single_string".into(), json!({"words": words.len() - 1, "punctuation": PUNCT, "max_wrapping_len": nl, "suggestions_checked": c + extra.0, "key_events": e + extra.1}));
    }
    // P4: candidate clause, all strings over the 94 typeable characters
    if crate::par::part_enabled("P4") {
        let n = if thorough { 3 } else { 2 };
        let cfgs: Vec<Opts> = vec![on(false, true), on(true, true), on(true, false), on(false, false)];
        let (c0, _) = run_part("P4", &all94, &[String::new()], 1, true, &cfgs);
        let prefixes: Vec<String> = if n == 2 { all94.iter().map(|c| c.to_string()).collect() } else { strings_upto(&all94, 2).into_iter().filter(|s| s.len() == 2).collect() };
        let (c, e) = run_part("P4", &all94, &prefixes, n - prefixes[0].len(), true, &cfgs);
        parts.insert("P4_all_strings_candidate_clause".into(), json!({"alphabet": 94, "max_len": n, "configurations": cfgs.len(), "suggestions_checked": c + c0, "key_events": e}));
    }
    // P5: candidate clause, class-reduced alphabet incl. the splitter's special characters
    if crate::par::part_enabled("P5") {
        let alpha: Vec<char> = "aks:`.(\"'1".chars().collect();
        let n = if thorough { 6 } else { 5 };
        let prefixes = strings_upto(&alpha, 2).into_iter().filter(|s| s.len() == 2).collect::<Vec<_>>();
        let (c, e) = run_part("P5", &alpha, &prefixes, n - 2, true, &[on(true, true), on(false, false)]);
        parts.insert("P5_splitter_alphabet_candidate_clause".into(), json!({"alphabet": alpha.iter().collect::<String>(), "max_len": n, "suggestions_checked": c, "key_events": e}));
    }

    // P6: every published key (incl. the number pad) once after three short texts, suggestions off and on:
    // the character it stands for is the harness's own key table
    if crate::par::part_enabled("P6") {
        let before = (checked.load(Ordering::Relaxed), events.load(Ordering::Relaxed));
        let cfgs = [off(false, true, false), on(true, true)];
        par_for(
            cfgs.len() * 3,
            1,
            |w| scratch_xdg(&format!("c03-P6-{}", w)),
            |xdg, idx| {
                let mut o = cfgs[idx % 2].clone();
                o.xdg = xdg.clone();
                let pre = ["", "a", "(k"][idx / 2];
                let mut ctx = Ctx::new(&o).expect("ctx");
                for k in crate::keys::KEYS {
                    for m in [0u8, 1, 2] {
                        let _ = ctx.apply(&Ev::Finish);
                        let mut evs: Vec<Ev> = pre.chars().map(Ev::ch).collect();
                        for e in &evs {
                            let _ = ctx.apply(e);
                        }
                        let ev = Ev::Key { code: k.code, m, sel: 0 };
                        evs.push(ev.clone());
                        events.fetch_add(1, Ordering::Relaxed);
                        match ctx.apply(&ev) {
                            Ok(crate::drv::Out::Sugg(r)) => {
                                checked.fetch_add(1, Ordering::Relaxed);
                                let text = format!("{}{}", pre, k.ch.map(|c| c.to_string()).unwrap_or_default());
                                let ok = if o.psugg {
                                    let (p, w, t) = split_ref(&text, false);
                                    let exp = avro.tr_parts(&p, &w, &t);
                                    text.is_empty() || (r.text() == text && r.items().iter().any(|c| uncurl(c) == uncurl(&exp)))
                                } else {
                                    let (p, w, t) = split_simple(&text);
                                    r.text() == avro.tr_parts(p, w, t)
                                };
                                if !ok {
                                    report.add(
                                        Violation::new("C03", "wrong-key-character", &format!("wrong-key-character:{}", k.name))
                                            .opts(&ctx.opts)
                                            .events(&evs)
                                            .feat("key", k.name)
                                            .detail(format!("after {:?} the key {} (character {:?}) gave {}", pre, k.name, k.ch, r.to_json())),
                                    );
                                }
                            }
                            Ok(_) => {}
                            Err(f) => {
                                report.add(fail_violation("C03", &f, &ctx.opts, &evs));
                            }
                        }
                    }
                }
            },
            |_| (),
        );
        parts.insert("P6_every_published_key".into(), json!({"keys": crate::keys::KEYS.len(), "modifiers": 3, "states": 3, "suggestions_checked": checked.load(Ordering::Relaxed) - before.0, "key_events": events.load(Ordering::Relaxed) - before.1}));
    }
    // P8: word endings inside the history - what counts as "typed" starts again after a commit (of EVERY index of the
    // list shown), a finish request or a ctrl-backspace. History BFS over letters, emoticon punctuation, backspace and the
    // ending events; the harness's tracked text is part of the search state; both clauses (single string with
    // suggestions off, "always a candidate" with them on).
    if crate::par::part_enabled("P8") {
        use crate::histgraph;
        let keys: Vec<Ev> = "ak;):`.".chars().map(Ev::ch).collect();
        let depth = if thorough { 5 } else { 4 };
        let before = checked.load(Ordering::Relaxed);
        let mut st_total = (0u64, 0u64);
        let tiny = crate::drv::fixture("tiny_db");
        for (ci, (psugg, english)) in [(false, true), (true, false), (true, true)].into_iter().enumerate() {
            let mut o = Opts::phonetic(&tiny, "");
            o.psugg = psugg;
            o.english = english;
            let st = histgraph::bfs_shadow(
                |w| {
                    let mut o = o.clone();
                    o.xdg = scratch_xdg(&format!("c03-P8-{}-{}", ci, w));
                    Ctx::new(&o).expect("ctx")
                },
                &std::collections::BTreeMap::new(),
                &[],
                depth,
                |_h, shown, _ctx| {
                    let mut v = keys.clone();
                    v.push(Ev::Bs);
                    v.push(Ev::CtrlBs);
                    v.push(Ev::Finish);
                    match shown {
                        Some(Rend::Full { items, .. }) => v.extend((0..items.len()).map(Ev::Commit)),
                        Some(Rend::Single { .. }) => v.push(Ev::Commit(0)),
                        _ => {}
                    }
                    v
                },
                |ctx, step| {
                    let mut h = step.hist.to_vec();
                    h.push(step.ev.clone());
                    match step.out {
                        Err(f) => {
                            report.add(fail_violation("C03", f, &ctx.opts, &h));
                        }
                        Ok(crate::drv::Out::Sugg(r)) => {
                            let text = crate::props::c02::typed_text(&h);
                            if text.is_empty() {
                                if !r.is_empty() {
                                    report.add(Violation::new("C03", "text-after-word-ending", "text-after-word-ending").opts(&ctx.opts).events(&h).detail(format!("nothing is typed in the current word, yet the suggestion is {}", r.to_json())));
                                }
                                return;
                            }
                            checked.fetch_add(1, Ordering::Relaxed);
                            judge_text(&avro, report, &samples, "P8", &ctx.opts, &h, &text, r, psugg);
                        }
                        Ok(_) => {}
                    }
                },
                |_| true,
                |h| crate::props::c02::typed_text(h),
            );
            st_total.0 += st.states;
            st_total.1 += st.transitions;
        }
        events.fetch_add(st_total.1, Ordering::Relaxed);
        parts.insert("P8_word_endings_inside_the_history".into(), json!({"alphabet": "ak;):`. + backspace, ctrl-backspace, finish, commit of every index", "depth": depth, "configurations": 3, "states": st_total.0, "transitions": st_total.1, "suggestions_checked": checked.load(Ordering::Relaxed) - before}));
    }

    // P7: history dependence with suggestions off: mixed alphabet (letters, brackets, full stop, colon,
    // back-tick) depth-first with backspaces, started after an earlier word in the same context
    if crate::par::part_enabled("P7") {
        let alpha: Vec<char> = "ak(.:`".chars().collect();
        let n = if thorough { 6 } else { 5 };
        let before = (checked.load(Ordering::Relaxed), events.load(Ordering::Relaxed));
        let earlier = ["", "a", "(ka)", "kk."];
        let firsts: Vec<char> = alpha.clone();
        par_for(
            earlier.len() * firsts.len(),
            1,
            |w| scratch_xdg(&format!("c03-P7-{}", w)),
            |xdg, idx| {
                let mut o = off(false, true, false);
                o.xdg = xdg.clone();
                let mut ctx = Ctx::new(&o).expect("ctx");
                ctx.with_pre = true;
                // an earlier word, ended by finish (the conversion buffers are reused between words)
                for c in earlier[idx / firsts.len()].chars() {
                    let _ = ctx.ch(c);
                }
                let _ = ctx.apply(&Ev::Finish);
                let mut d = Dfs { ctx, avro: &avro, report, alphabet: &alpha, checked: 0, events: 0, text: String::new(), lists: false, samples: &samples, part: "P7" };
                let first = firsts[idx % firsts.len()];
                // walk only the subtree of `first`, but including the return to it and to the empty text
                d.events += 1;
                if let Ok(r) = d.ctx.ch(first) {
                    d.text.push(first);
                    d.check(&r, false);
                    d.rec(n - 1);
                }
                checked.fetch_add(d.checked, Ordering::Relaxed);
                events.fetch_add(d.events, Ordering::Relaxed);
            },
            |_| (),
        );
        parts.insert("P7_mixed_alphabet_after_earlier_word_single_string".into(), json!({"alphabet": "ak(.:`", "max_len": n, "earlier_words": earlier, "suggestions_checked": checked.load(Ordering::Relaxed) - before.0, "key_events": events.load(Ordering::Relaxed) - before.1}));
    }

    // P9: data-guided LONG words (the enumerations above stop at 3-6 characters): every bundled auto-correct key, every
    // English emoji name, every suffix key behind a few bases - typed key by key (every prefix judged) and removed again with
    // backspaces (every list shown again judged); words of letters and digits also in the single-string mode, bare and wrapped
    if crate::par::part_enabled("P9") {
        let before = (checked.load(Ordering::Relaxed), events.load(Ordering::Relaxed));
        let dict = crate::data::Dict::load(&real_db());
        let mut words: std::collections::BTreeSet<String> = std::collections::BTreeSet::new();
        let typeable = |w: &str| !w.is_empty() && w.chars().all(|c| (33..=126).contains(&(c as u32)));
        for k in dict.autocorrect.keys() {
            if typeable(k) {
                words.insert(k.clone());
            }
        }
        for k in emojicon::internal::emojis().keys() {
            if typeable(k) {
                words.insert(k.to_string());
            }
        }
        let bases: &[&str] = if thorough { &["kor", "bol", "ja", "dekh", "shikkha", "manush", "oi", "rrin", "Kha", "b1"] } else { &["kor", "ja", "shikkha", "oi"] };
        let mut sk: Vec<&String> = dict.suffix.keys().collect();
        sk.sort();
        for b in bases {
            for s in &sk {
                words.insert(format!("{}{}", b, s));
            }
        }
        let words: Vec<String> = words.into_iter().collect();
        let longest = words.iter().map(|w| w.chars().count()).max().unwrap_or(0);
        let wraps: &[(&str, &str)] = &[("", ""), ("\"", "\""), ("(", ")."), ("'", "?"), ("-", "!")];
        let cfgs = [off(false, true, false), on(true, true), off(true, false, true), on(false, false)];
        let chunk = 64;
        let jobs = (words.len() + chunk - 1) / chunk;
        par_for(
            jobs * cfgs.len(),
            1,
            |w| scratch_xdg(&format!("c03-P9-{}", w)),
            |xdg, idx| {
                let mut o = cfgs[idx % cfgs.len()].clone();
                o.xdg = xdg.clone();
                let lists = o.psugg;
                let j = idx / cfgs.len();
                o.via_update = j % 2 == 1;
                let mut ctx = Ctx::new(&o).expect("ctx");
                ctx.with_pre = !lists;
                let mut d = Dfs { ctx, avro: &avro, report, alphabet: &[], checked: 0, events: 0, text: String::new(), lists, samples: &samples, part: "P9" };
                for (wi, w) in words[j * chunk..((j + 1) * chunk).min(words.len())].iter().enumerate() {
                    let alnum = w.chars().all(|c| c.is_ascii_alphanumeric());
                    if !lists && !alnum {
                        continue; // the single-string clause speaks of letters and digits (wrapped in the punctuation set)
                    }
                    // one wrapping per word in the quick tier (rotating), all of them in the thorough tier
                    for (wj, (l, t)) in wraps.iter().enumerate() {
                        if !thorough && wj != 0 && wj != 1 + (j * chunk + wi) % (wraps.len() - 1) {
                            continue;
                        }
                        if !alnum && wj != 0 {
                            continue;
                        }
                        let _ = d.ctx.apply(&Ev::Finish);
                        d.text.clear();
                        d.walk_word(&format!("{}{}{}", l, w, t));
                    }
                }
                checked.fetch_add(d.checked, Ordering::Relaxed);
                events.fetch_add(d.events, Ordering::Relaxed);
            },
            |_| (),
        );
        parts.insert("P9_data_guided_long_words".into(), json!({"words": words.len(), "longest": longest, "sources": "bundled auto-correct keys, English emoji names, bases x all suffix keys", "bases": bases, "wrappings": wraps.len(), "configurations": cfgs.len(), "suggestions_checked": checked.load(Ordering::Relaxed) - before.0, "key_events": events.load(Ordering::Relaxed) - before.1}));
    }

    let mut ev = Evidence::new("C03", &report.tier, "exploration");
    ev.set("evaluations", events.load(Ordering::Relaxed).max(1));
    ev.set("distinct_nontrivial", checked.load(Ordering::Relaxed).max(2));
    ev.set("rule", "every string of the stated sub-spaces is typed key by key into a real context (depth-first, backspace shares prefixes); evaluations = key/backspace events, distinct_nontrivial = returned suggestions compared with the harness's okkhor transliteration (each corresponds to one distinct typed text reached by one distinct path; texts of length >= 1 only)");
    ev.set("exhaustive", true);
    ev.set("parts", serde_json::Value::Object(parts));
    ev.set("samples", samples.take());
    ev.assume("okkhor 0.7.0 (same locked version, called by the harness itself) defines the Avro transliteration");
    ev.assume("for arbitrary strings the parts are given by the harness's reference splitter (back-tick / colon rules); for [A-Za-z0-9] words wrapped in the statement's punctuation by the maximal punctuation prefix and suffix");
    ev
}
