//! C04 — a fixed-layout key emits exactly the text the layout file assigns to it.
//!
//! Complete enumeration: 65 536 key codes x 12 modifier bytes x number-pad on/off x
//! 3 layouts x {idle, after one plain consonant} x {suggestions off, on (no database)}.
//! Oracle: the layout JSON read by the harness + the harness's own key table (keys.rs).

use crate::drv::{fixture, probhat, scratch_xdg, Ctx, Ev, Fail, Opts, Rend};
use crate::keys;
use crate::par::par_for;
use crate::report::{Evidence, Report, Samples, Violation};
use serde_json::{json, Value};
use std::collections::{HashMap, HashSet};
use std::sync::atomic::{AtomicU64, Ordering};

const MODS: [u8; 12] = [0, 1, 2, 3, 0x80, 0x81, 0x82, 0x83, 0xFC, 0xFD, 0xFE, 0xFF];
const PREFIX: &str = "\u{0995}"; // ক — a plain consonant no rule reacts to
/// ক্ , র , র্ , কা , আ , কঁ , "," , ক‌ (ZWNJ), ১
const EXTRA_PREFIXES: [&str; 9] = ["\u{0995}\u{09CD}", "\u{09B0}", "\u{09B0}\u{09CD}", "\u{0995}\u{09BE}", "\u{0986}", "\u{0995}\u{0981}", ",", "\u{0995}\u{200C}", "\u{09E7}"];

struct Job {
    layout: String,
    map: HashMap<String, String>,
    numpad: bool,
    fsugg: bool,
    /// composed text before the press (set through the hook)
    prefix: &'static str,
    /// options the result must not depend on: bit 0 English, 1 ANSI, 2 smart quotes (only the 111 published
    /// keys are pressed for the non-zero settings)
    other: u8,
    /// the context reaches its configuration through update-engine: created with every boolean option inverted (number pad
    /// included), one word composed and ended, then re-configured while idle (published keys only)
    via: bool,
}

fn expected<'a>(map: &'a HashMap<String, String>, code: u16, m: u8, numpad: bool) -> Option<&'a str> {
    let k = keys::by_code(code)?;
    let entry = k.entry?;
    let v = if k.numpad {
        if !numpad {
            return None;
        }
        map.get(entry)?
    } else {
        let plane = if m & 2 != 0 { "AltGr" } else { "Normal" };
        map.get(&format!("Key_{}_{}", entry, plane))?
    };
    if v.is_empty() {
        None
    } else {
        Some(v.as_str())
    }
}

pub fn run(report: &Report, _thorough: bool) -> Evidence {
    let layouts = [probhat(), fixture("layout_synth.json"), fixture("layout_karfirst.json")];
    let mut jobs = vec![];
    for l in &layouts {
        let v: Value = serde_json::from_str(&std::fs::read_to_string(l).expect("layout file")).unwrap();
        let map: HashMap<String, String> = v["layout"]
            .as_object()
            .unwrap()
            .iter()
            .map(|(k, v)| (k.clone(), v.as_str().unwrap().to_string()))
            .collect();
        for numpad in [false, true] {
            for fsugg in [false, true] {
                for prefix in ["", PREFIX] {
                    for other in 0..8u8 {
                        jobs.push(Job { layout: l.clone(), map: map.clone(), numpad, fsugg, prefix, other, via: false });
                    }
                    jobs.push(Job { layout: l.clone(), map: map.clone(), numpad, fsugg, prefix, other: 0, via: true });
                }
                // further composition states, one per character class (published keys only): the un-gated rules of the
                // composition (hasanta + sign, second hasanta, zo-fola after a bare ra, AU length mark) apply with all
                // helpers off too, so the expectation there is the C12 reference step; where that defines nothing
                // (rare signs, multi-code-point values) it is plain appending, as this statement says
                for prefix in EXTRA_PREFIXES {
                    jobs.push(Job { layout: l.clone(), map: map.clone(), numpad, fsugg, prefix, other: 1 << 7, via: false });
                }
            }
        }
    }
    let evals = AtomicU64::new(0);
    let samples = Samples::new(6);
    // one work item = (job, modifier byte, block of 4096 key codes)
    let blocks = 16usize;
    let n = jobs.len() * MODS.len() * blocks;
    let workers = par_for(
        n,
        1,
        |w| (scratch_xdg(&format!("c04-{}", w)), HashSet::<(usize, u16, bool)>::new(), HashMap::<usize, Ctx>::new()),
        |st, idx| {
            let (xdg, nontrivial, ctxs) = st;
            let ji = idx / (MODS.len() * blocks);
            let mi = (idx / blocks) % MODS.len();
            let bi = idx % blocks;
            let job = &jobs[ji];
            let m = MODS[mi];
            let ctx = ctxs.entry(ji).or_insert_with(|| {
                let mut o = Opts::fixed(&job.layout, "", xdg);
                o.numpad = job.numpad;
                o.fsugg = job.fsugg;
                o.english = job.other & 1 != 0 && job.other < 128;
                o.ansi = job.other & 2 != 0;
                o.smart = job.other & 4 != 0;
                o.via_update = job.via;
                let mut c = Ctx::new(&o).expect("context for C04");
                c.with_pre = false;
                c
            });
            let prefix = job.prefix;
            let mut count = 0u64;
            for code in (bi * 4096) as u32..((bi + 1) * 4096) as u32 {
                let code = code as u16;
                if (job.other != 0 || job.via) && keys::by_code(code).is_none() {
                    continue; // the full 65 536-code space is enumerated under the base setting of the other options
                }
                ctx.set_fixed(prefix, "", 0);
                let exp_val = expected(&job.map, code, m, job.numpad);
                // (None: the un-gated rules meet a value the C12 statement defines no result for - a rare sign, a value of
                // several code points; the key must then at least not be swallowed)
                let exp_opt: Option<String> = match (exp_val, job.other >= 128) {
                    (Some(v), true) => match crate::fxref::fixed_step_ref(prefix, v, &ctx.opts) {
                        crate::fxref::RefOut::Text(t) => Some(t),
                        _ => None,
                    },
                    _ => Some(format!("{}{}", prefix, exp_val.unwrap_or(""))),
                };
                let unspecified = exp_opt.is_none();
                let exp_text = exp_opt.unwrap_or_default();
                let ev = Ev::Key { code, m, sel: 0 };
                count += 1;
                let got = ctx.apply(&ev);
                let bad = |kind: &str, detail: String| {
                    let mut evs = vec![];
                    if prefix == PREFIX {
                        evs.push(Ev::ch('k'));
                    }
                    evs.push(ev.clone());
                    let kname = keys::by_code(code).map(|k| k.name).unwrap_or("unpublished");
                    let v =
                        Violation::new("C04", kind, &format!("{}:{}:m{}", kind, kname, m & 3))
                            .opts(&ctx.opts)
                            .feat("key", kname)
                            .feat("code", format!("0x{:04X}", code))
                            .feat("modifier", format!("{}", m))
                            .events(&evs)
                            .detail(detail);
                    report.add(if prefix.is_empty() || prefix == PREFIX { v } else { v.origin(prefix, "", 0) });
                };
                match got {
                    Err(Fail::CallPanic(p)) => bad("panic", format!("key panicked: {}", p.short())),
                    Err(f) => bad("read-failure", format!("{:?}", f)),
                    Ok(out) => {
                        let r = match out {
                            crate::drv::Out::Sugg(r) => r,
                            _ => unreachable!(),
                        };
                        let text = r.text();
                        if unspecified {
                            if text == prefix {
                                bad("key-swallowed", format!("composition is still {:?} after a key with the value {:?}", text, exp_val.unwrap_or("")));
                            }
                        } else if text != exp_text {
                            bad(
                                "wrong-text",
                                format!("composition is {:?}, layout file says {:?}", text, exp_text),
                            );
                        } else {
                            // shape of the answer
                            let shape_ok = match (&r, exp_text.is_empty(), job.fsugg) {
                                (Rend::Empty, true, _) => true,
                                (Rend::Single { .. }, false, false) => true,
                                // with suggestions on and nothing typed by *this* key the
                                // previous list is re-shown; with a value a fresh list
                                (Rend::Full { .. }, false, true) => true,
                                _ => false,
                            };
                            if !shape_ok {
                                bad("wrong-shape", format!("unexpected suggestion shape {}", r.to_json()));
                            }
                            // "change nothing": a key without an assignment leaves the whole method state as it was
                            // (the raw key record is read by later candidate lists)
                            if exp_val.is_none() {
                                let st = crate::fxgraph::read_state(ctx);
                                if st.buf != prefix || !st.typed.is_empty() || st.pending != 0 {
                                    bad("unassigned-key-changed-state", format!("state after the key: buffer {:?}, raw keys {:?}, waiting sign {} (before: buffer {:?}, no raw keys)", st.buf, st.typed, st.pending, prefix));
                                }
                            }
                            if ctx.ongoing() != !exp_text.is_empty() {
                                bad("wrong-session-flag", format!("ongoing={} for composition {:?}", ctx.ongoing(), exp_text));
                            }
                        }
                        if exp_val.is_some() {
                            nontrivial.insert((ji / 54, code, m & 2 != 0));
                            samples.offer(|| json!({"layout": job.layout, "numpad": job.numpad, "event": ev.short(), "expected": exp_text, "got": r.to_json()}));
                        }
                    }
                }
            }
            evals.fetch_add(count, Ordering::Relaxed);
        },
        |st| st.1,
    );
    // ---- two real presses in a row: every ordered pair of (published key, plane) typed from the idle state on the bundled layout,
    // all helpers off. The single-press table above sets the state through the hook; whatever a method keeps from one press to the
    // next (the previous key, a cached table entry) only shows when both keys are really pressed. Expectation for the second press:
    // the C12 reference step on the text of the first where it defines a result, "not swallowed" elsewhere.
    let pair_presses = AtomicU64::new(0);
    {
        let l = probhat();
        let v: Value = serde_json::from_str(&std::fs::read_to_string(&l).expect("layout file")).unwrap();
        let map: HashMap<String, String> = v["layout"].as_object().unwrap().iter().map(|(k, v)| (k.clone(), v.as_str().unwrap().to_string())).collect();
        let presses: Vec<(u16, u8)> = keys::KEYS.iter().flat_map(|k| [(k.code, 0u8), (k.code, 2u8)]).collect();
        par_for(
            presses.len() * 2,
            1,
            |w| scratch_xdg(&format!("c04p-{}", w)),
            |xdg, idx| {
                let fsugg = idx % 2 == 1;
                let (c1, m1) = presses[idx / 2];
                let Some(v1) = expected(&map, c1, m1, true) else { return };
                let mut o = Opts::fixed(&l, "", xdg);
                o.numpad = true;
                o.fsugg = fsugg;
                let mut ctx = Ctx::new(&o).expect("context for C04");
                ctx.with_pre = false;
                for &(c2, m2) in &presses {
                    let _ = ctx.apply(&Ev::Finish);
                    let e1 = Ev::Key { code: c1, m: m1, sel: 0 };
                    let e2 = Ev::Key { code: c2, m: m2, sel: 0 };
                    let t1 = match ctx.apply(&e1) {
                        Ok(crate::drv::Out::Sugg(r)) => r.text(),
                        _ => continue, // (a failing single press is reported by the table above)
                    };
                    pair_presses.fetch_add(1, Ordering::Relaxed);
                    let v2 = expected(&map, c2, m2, true).unwrap_or("");
                    let got = match ctx.apply(&e2) {
                        Ok(crate::drv::Out::Sugg(r)) => r.text(),
                        other => {
                            report.add(Violation::new("C04", "panic", "panic:pair").opts(&ctx.opts).events(&[e1.clone(), e2.clone()]).detail(format!("second press: {:?}", other)));
                            continue;
                        }
                    };
                    let exp = if v2.is_empty() {
                        Some(t1.clone())
                    } else {
                        match crate::fxref::fixed_step_ref(&t1, v2, &ctx.opts) {
                            crate::fxref::RefOut::Text(t) => Some(t),
                            _ => None,
                        }
                    };
                    let bad = match &exp {
                        Some(x) => got != *x,
                        None => got == t1,
                    };
                    if bad {
                        let k2 = keys::by_code(c2).map(|k| k.name).unwrap_or("?");
                        report.add(
                            Violation::new("C04", "wrong-text", &format!("pair:{}:m{}", k2, m2))
                                .opts(&ctx.opts)
                                .feat("key", k2)
                                .events(&[e1.clone(), e2.clone()])
                                .detail(format!("after a real press giving {:?} (value {:?}) the key with the value {:?} gave {:?}; expected {}", t1, v1, v2, got, exp.map(|x| format!("{:?}", x)).unwrap_or("anything but the unchanged text".into()))),
                        );
                    }
                }
            },
            |_| (),
        );
    }
    let mut nontrivial: HashSet<(usize, u16, bool)> = HashSet::new();
    for s in workers {
        nontrivial.extend(s);
    }
    let mut ev = Evidence::new("C04", &report.tier, "exploration");
    ev.set("evaluations", evals.load(Ordering::Relaxed));
    ev.set("distinct_nontrivial", nontrivial.len());
    ev.set("rule", "every (key code 0..=65535, modifier byte in {0,1,2,3,0x80..0x83,0xFC..0xFF}, numpad on/off, layout in {Probhat, layout_synth, layout_karfirst}, idle | after one consonant, suggestions off | on) pressed once with all helpers off; non-trivial = distinct (layout, numpad, key code, AltGr plane) for which the layout file assigns a non-empty value");
    ev.set("exhaustive", true);
    ev.set("two_real_presses_in_a_row", json!({"layout": "Probhat", "first_presses": 2 * keys::KEYS.len(), "second_presses": 2 * keys::KEYS.len(), "suggestions": "off and on", "pairs_with_a_value_on_the_first_press": pair_presses.load(Ordering::Relaxed)}));
    ev.set("samples", samples.take());
    ev.set("layouts", json!(layouts));
    ev.set("modifier_bytes", json!(MODS));
    ev.assume("layout files are read by the harness with serde_json; key-code -> entry-name table is the harness's own transcription of riti.h");
    ev.assume("state is re-initialised with the verif_set_composition hook between presses");
    ev
}
