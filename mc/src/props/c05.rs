//! C05 — suggestions depend only on the surviving typed text, not on typing history.
//!
//!  (1)+(2) history BFS (keys, backspace, finish, commit of the preselected candidate) over two
//!      alphabets, from an empty and from a non-empty learned store: whenever an event returns a
//!      suggestion for a non-empty text T, the full rendering (candidates, order, preselected
//!      index, auxiliary text) must equal the rendering of the *default execution* of T — a newly
//!      created method over a store holding the same learned selections, T typed directly, the
//!      same selection byte on the final key (for a backspace-final history: T+'a' typed
//!      directly, then one backspace);
//!  (3) two contexts in one process: for all pairs of words (u, v) ALL call-level merges of
//!      typing u in context A and v in context B; every rendering must equal the solo run.
//!  Plus a source scan: riti declares no static / thread_local / lazily initialised global.

use crate::drv::{fixture, hist_short, real_db, scratch_xdg, Ctx, Ev, Opts, Out, Rend};
use crate::histgraph::{self, HistStats};
use crate::par::par_for;
use crate::props::c01::fail_violation;
use crate::props::c02::typed_text;
use crate::report::{Evidence, Report, Samples, Violation};
use serde_json::json;
use std::collections::{BTreeMap, HashMap};
use std::sync::atomic::{AtomicU64, Ordering};

fn scan_statics() -> Vec<String> {
    let re = regex::Regex::new(r"(^|\s)static\s+(mut\s+)?[A-Za-z_][A-Za-z0-9_]*\s*:|thread_local!|lazy_static!|OnceCell|OnceLock|LazyLock|Lazy<").unwrap();
    let mut found = vec![];
    fn walk(dir: &std::path::Path, out: &mut Vec<std::path::PathBuf>) {
        if let Ok(rd) = std::fs::read_dir(dir) {
            for e in rd.flatten() {
                let p = e.path();
                if p.is_dir() {
                    walk(&p, out);
                } else if p.extension().map(|x| x == "rs").unwrap_or(false) {
                    out.push(p);
                }
            }
        }
    }
    let mut files = vec![];
    walk(&std::path::Path::new(crate::drv::repo_root()).join("src"), &mut files);
    files.sort();
    for f in files {
        if let Ok(text) = std::fs::read_to_string(&f) {
            for (n, line) in text.lines().enumerate() {
                let l = line.trim_start();
                if l.starts_with("//") {
                    continue;
                }
                if re.is_match(line) {
                    found.push(format!("{}:{}: {}", f.display(), n + 1, line.trim()));
                }
            }
        }
    }
    found
}

pub fn run(report: &Report, thorough: bool) -> Evidence {
    let tiny = fixture("tiny_db");
    let samples = Samples::new(8);
    let mut parts = serde_json::Map::new();
    let compared = AtomicU64::new(0);
    let mut states = 0u64;
    let mut transitions = 0u64;

    // ---------------- (1)+(2) ----------------
    if crate::par::part_enabled("bfs") {
        // (db, alphabet, depth, english, initial store)
        let store = r#"{"as":"আশ","a":"া","e":"ে"}"#;
        let d = if thorough { 8 } else { 6 };
        // last element: the remaining options, bit 0 = ANSI on, bit 1 = smart quotes off
        let mut plans: Vec<(String, &str, usize, bool, Option<&str>, u8)> = vec![
            (tiny.clone(), "aser", d, false, None, 0),
            (tiny.clone(), "aser", d - 1, true, Some(store), 0),
            (tiny.clone(), "ae:`.", d - 1, true, None, 0),
            (tiny.clone(), "ae:`.", d - 1, false, Some(store), 0),
        ];
        plans.push((real_db(), "aser", if thorough { 6 } else { 4 }, true, Some(store), 0));
        // dictionary suggestions off (single-string mode): marked by the alphabet "ak(.:`"
        plans.push((tiny.clone(), "ak(.:`", d - 1, false, None, 0));
        // letter case: the memo must not confuse words that differ in the case of a letter (real data)
        plans.push((real_db(), "tTa", if thorough { 5 } else { 4 }, false, None, 0));
        // "under every phonetic configuration": ANSI and smart quotes (quote keys in the alphabet), alone and together
        plans.push((tiny.clone(), "aser", d - 1, true, Some(store), 1));
        plans.push((tiny.clone(), "ae\"'.", d - 1, false, None, 0));
        plans.push((tiny.clone(), "as\"`:", d - 2, true, Some(store), 1));
        plans.push((tiny.clone(), "ae\"'.", d - 2, false, Some(store), 2));
        plans.push((tiny.clone(), "ak(.:`", d - 2, true, None, 3));
        let mut total = HistStats::default();
        let ref_runs = AtomicU64::new(0);
        for (pi, (db, alpha, depth, english, init_store, extra)) in plans.iter().enumerate() {
            let mut keys: Vec<Ev> = alpha.chars().map(Ev::ch).collect();
            // a key without a character (keypad Enter): changes nothing, so it must not change the suggestion either
            keys.push(Ev::key(crate::keys::by_name("VC_KP_ENTER").unwrap().code));
            // the same character from another key: the number pad's full stop
            if alpha.contains('.') {
                keys.push(Ev::key(crate::keys::by_name("VC_KP_DECIMAL").unwrap().code));
            }
            let mut files = BTreeMap::new();
            if let Some(s) = init_store {
                files.insert("phonetic-candidate-selection.json".to_string(), s.to_string());
            }
            let mut o = Opts::phonetic(db, "");
            o.english = *english;
            o.psugg = *alpha != "ak(.:`";
            o.ansi = extra & 1 != 0;
            o.smart = extra & 2 == 0;
            thread_local! {
                static TWIN: std::cell::RefCell<Option<(String, Ctx)>> = const { std::cell::RefCell::new(None) };
                static REF: std::cell::RefCell<HashMap<String, Result<Rend, String>>> = std::cell::RefCell::new(HashMap::new());
            }
            let st = histgraph::bfs_shadow(
                |w| {
                    let mut o = o.clone();
                    o.xdg = scratch_xdg(&format!("c05-{}-{}", pi, w));
                    let mut c = Ctx::new(&o).expect("ctx");
                    c.with_pre = false;
                    c
                },
                &files,
                &[],
                *depth,
                |_h, shown, _ctx| {
                    let sel = shown.map(|r| r.sel().min(255) as u8).unwrap_or(0);
                    let mut v: Vec<Ev> = keys.iter().map(|k| if let Ev::Key { code, m, .. } = k { Ev::Key { code: *code, m: *m, sel } } else { k.clone() }).collect();
                    v.push(Ev::Bs);
                    v.push(Ev::CtrlBs);
                    v.push(Ev::Finish);
                    if let Some(r) = shown {
                        // committing the preselected candidate ends the word without learning
                        v.push(Ev::Commit(r.sel().min(r.len().saturating_sub(1))));
                        // ... and committing another one learns it (the default execution gets the live context's learned
                        // selections, so the comparison stays meaningful); a lonely suggestion is committed as index 0
                        if r.len() > 1 {
                            v.push(Ev::Commit((r.sel() + 1) % r.len()));
                        }
                    }
                    v
                },
                |ctx, step| {
                    let mut h = step.hist.to_vec();
                    h.push(step.ev.clone());
                    let r = match step.out {
                        Ok(Out::Sugg(r)) if !r.is_empty() => r,
                        Ok(_) => return,
                        Err(f) => {
                            report.add(fail_violation("C05", f, &ctx.opts, &h));
                            return;
                        }
                    };
                    let text = typed_text(&h);
                    if text.is_empty() {
                        return;
                    }
                    let (final_is_bs, byte) = match step.ev {
                        Ev::Key { sel, .. } => (false, *sel),
                        _ => (true, 0),
                    };
                    // a final key without a character (keypad Enter): the default execution types the text
                    // directly and then presses that same key with the same selection byte
                    let noop_final: Option<u16> = match step.ev {
                        Ev::Key { code, .. } if crate::keys::by_code(*code).map(|k| k.ch.is_none()).unwrap_or(false) => Some(*code),
                        _ => None,
                    };
                    // the learned selections the live context holds now
                    let snap = ctx.snapshot_json(1);
                    let sels = snap["selections"].clone();
                    let key = format!("{}|{}|{}|{}|{:?}", sels, text, final_is_bs, byte, noop_final);
                    let expected: Result<Rend, String> = REF.with(|rf| {
                        if let Some(v) = rf.borrow().get(&key) {
                            return v.clone();
                        }
                        ref_runs.fetch_add(1, Ordering::Relaxed);
                        let v = TWIN.with(|t| {
                            let mut t = t.borrow_mut();
                            let id = format!("{}|{}", ctx.opts.flags(), ctx.opts.db);
                            if t.as_ref().map(|(k, _)| *k != id).unwrap_or(true) {
                                let mut o2 = ctx.opts.clone();
                                o2.xdg = format!("{}-twin", ctx.opts.xdg);
                                std::fs::create_dir_all(o2.user_dir()).expect("twin dir");
                                let mut c2 = Ctx::new(&o2).expect("twin");
                                c2.with_pre = false;
                                *t = Some((id, c2));
                            }
                            let (_, twin) = t.as_mut().unwrap();
                            let mut f2 = BTreeMap::new();
                            if sels.as_object().map(|m| !m.is_empty()).unwrap_or(false) {
                                f2.insert("phonetic-candidate-selection.json".to_string(), sels.to_string());
                            }
                            if let Err(p) = histgraph::fresh(twin, &f2) {
                                return Err(p.short());
                            }
                            let mut shown: Option<Rend> = None;
                            let chars: Vec<char> = text.chars().collect();
                            let n = chars.len();
                            let mut seq: Vec<(char, bool)> = chars.iter().enumerate().map(|(i, c)| (*c, i + 1 == n && !final_is_bs && noop_final.is_none())).collect();
                            if final_is_bs {
                                seq.push(('a', false));
                            }
                            for (c, is_final) in seq {
                                let sel = if is_final { byte } else { shown.as_ref().map(|r| r.sel().min(255) as u8).unwrap_or(0) };
                                match twin.apply(&Ev::Key { code: crate::keys::code_for_char(c).unwrap(), m: 0, sel }) {
                                    Ok(Out::Sugg(r)) => shown = Some(r),
                                    Ok(_) => {}
                                    Err(f) => return Err(format!("{:?}", f)),
                                }
                            }
                            if let Some(code) = noop_final {
                                match twin.apply(&Ev::Key { code, m: 0, sel: byte }) {
                                    Ok(Out::Sugg(r)) => shown = Some(r),
                                    Ok(_) => {}
                                    Err(f) => return Err(format!("{:?}", f)),
                                }
                            }
                            if final_is_bs {
                                match twin.apply(&Ev::Bs) {
                                    Ok(Out::Sugg(r)) => shown = Some(r),
                                    Ok(_) => {}
                                    Err(f) => return Err(format!("{:?}", f)),
                                }
                            }
                            shown.ok_or_else(|| "no suggestion".to_string())
                        });
                        rf.borrow_mut().insert(key.clone(), v.clone());
                        v
                    });
                    compared.fetch_add(1, Ordering::Relaxed);
                    match expected {
                        Ok(exp) => {
                            if exp != *r {
                                let what = if exp.items() != r.items() { "candidates" } else if exp.sel() != r.sel() { "preselection" } else { "auxiliary" };
                                report.add(
                                    Violation::new("C05", "history-dependent-suggestion", &format!("history-dependent:{}:{}", what, if final_is_bs { "backspace-final" } else { "key-final" }))
                                        .opts(&ctx.opts)
                                        .events(&h)
                                        .feat("text", text.clone())
                                        .detail(format!("text {:?} with learned selections {}: this history gives {}, the default execution gives {}", text, sels, r.to_json(), exp.to_json())),
                                );
                            } else if h.len() >= 5 && h.iter().filter(|e| matches!(e, Ev::Bs)).count() >= 1 {
                                samples.offer(|| json!({"history": hist_short(&h), "text": text, "learned": sels, "rendering_equal_to_default_execution": true}));
                            }
                        }
                        Err(e) => {
                            report.add(Violation::new("C05", "default-execution-failed", "default-execution-failed").opts(&ctx.opts).events(&h).detail(format!("typing {:?} directly in a new context failed: {}", text, e)));
                        }
                    }
                },
                |_| true,
                |h| format!("composing:{}", typed_text(h)),
            );
            total.states += st.states;
            total.transitions += st.transitions;
            total.replayed_events += st.replayed_events;
            total.distinct_outcomes += st.distinct_outcomes;
            total.max_depth = total.max_depth.max(st.max_depth);
        }
        states += total.states;
        transitions += total.transitions;
        parts.insert(
            "history_bfs".into(),
            json!({"plans": plans.iter().map(|(db, a, d, e, s, x)| json!({"db": db, "alphabet": a, "depth": d, "english": e, "initial_store": s, "ansi": x & 1 != 0, "smart_quotes": x & 2 == 0})).collect::<Vec<_>>(),
                   "states": total.states, "transitions": total.transitions, "replayed_events": total.replayed_events, "distinct_outcomes": total.distinct_outcomes,
                   "default_executions_run": ref_runs.load(Ordering::Relaxed)}),
        );
    }

    // ---------------- (3) two contexts, all merges ----------------
    if crate::par::part_enabled("merge") {
        let letters: Vec<char> = "aser".chars().collect();
        let maxsum = if thorough { 7 } else { 6 };
        let mut words: Vec<String> = vec![];
        {
            let mut v = vec![String::new()];
            let mut i = 0;
            while i < v.len() {
                if v[i].len() < maxsum - 1 {
                    for &c in &letters {
                        let mut s = v[i].clone();
                        s.push(c);
                        v.push(s);
                    }
                }
                i += 1;
            }
            words.extend(v.into_iter().filter(|s| !s.is_empty() && s.len() <= 4));
        }
        // pairs with |u| + |v| <= maxsum
        let mut pairs: Vec<(usize, usize)> = vec![];
        for (i, u) in words.iter().enumerate() {
            for (j, v) in words.iter().enumerate() {
                if u.len() + v.len() <= maxsum && u.len() <= 3 && v.len() <= 3 {
                    pairs.push((i, j));
                }
            }
        }
        let merges_run = AtomicU64::new(0);
        let calls = AtomicU64::new(0);
        par_for(
            pairs.len(),
            8,
            |w| {
                let mk = |name: &str, english: bool| {
                    let mut o = Opts::phonetic(&tiny, &scratch_xdg(&format!("c05m-{}-{}", name, w)));
                    o.english = english;
                    let mut c = Ctx::new(&o).expect("ctx");
                    c.with_pre = false;
                    c
                };
                (mk("a", false), mk("b", true), HashMap::<(bool, String), Vec<Rend>>::new())
            },
            |st, idx| {
                let (a, b, solo) = st;
                let (u, v) = (&words[pairs[idx].0], &words[pairs[idx].1]);
                let files = BTreeMap::new();
                // solo runs (memoised per worker)
                let mut solo_run = |which: bool, w: &String, ctx: &mut Ctx| -> Vec<Rend> {
                    if let Some(r) = solo.get(&(which, w.clone())) {
                        return r.clone();
                    }
                    let _ = histgraph::fresh(ctx, &files);
                    let mut out = vec![];
                    for c in w.chars() {
                        if let Ok(r) = ctx.ch(c) {
                            out.push(r);
                        }
                    }
                    solo.insert((which, w.clone()), out.clone());
                    out
                };
                let su = solo_run(false, u, a);
                let sv = solo_run(true, v, b);
                // all merges: bit strings with |u| zeros (A moves) and |v| ones (B moves)
                let n = u.len() + v.len();
                for mask in 0u32..(1 << n) {
                    if mask.count_ones() as usize != v.len() {
                        continue;
                    }
                    merges_run.fetch_add(1, Ordering::Relaxed);
                    let _ = histgraph::fresh(a, &files);
                    let _ = histgraph::fresh(b, &files);
                    let (mut iu, mut iv) = (0usize, 0usize);
                    let (uc, vc): (Vec<char>, Vec<char>) = (u.chars().collect(), v.chars().collect());
                    let mut order = String::new();
                    for step in 0..n {
                        calls.fetch_add(1, Ordering::Relaxed);
                        if mask & (1 << step) == 0 {
                            order.push('A');
                            let r = a.ch(uc[iu]);
                            match r {
                                Ok(r) => {
                                    if Some(&r) != su.get(iu) {
                                        report.add(Violation::new("C05", "interference-between-contexts", "interference-between-contexts").opts(&a.opts).events(&uc[..=iu].iter().map(|&c| Ev::ch(c)).collect::<Vec<_>>()).feat("other_context_word", v.clone()).feat("interleaving", order.clone()).detail(format!("context A typing {:?} while context B types {:?} (call order {}): rendering {} is {} but {} when A runs alone", u, v, order, iu, r.to_json(), su.get(iu).map(|x| x.to_json()).unwrap_or_default())));
                                    }
                                }
                                Err(f) => {
                                    report.add(fail_violation("C05", &f, &a.opts, &[]));
                                }
                            }
                            iu += 1;
                        } else {
                            order.push('B');
                            let r = b.ch(vc[iv]);
                            match r {
                                Ok(r) => {
                                    if Some(&r) != sv.get(iv) {
                                        report.add(Violation::new("C05", "interference-between-contexts", "interference-between-contexts").opts(&b.opts).events(&vc[..=iv].iter().map(|&c| Ev::ch(c)).collect::<Vec<_>>()).feat("other_context_word", u.clone()).feat("interleaving", order.clone()).detail(format!("context B typing {:?} while context A types {:?} (call order {}): rendering {} is {} but {} when B runs alone", v, u, order, iv, r.to_json(), sv.get(iv).map(|x| x.to_json()).unwrap_or_default())));
                                    }
                                }
                                Err(f) => {
                                    report.add(fail_violation("C05", &f, &b.opts, &[]));
                                }
                            }
                            iv += 1;
                        }
                    }
                }
            },
            |_| (),
        );
        transitions += calls.load(Ordering::Relaxed);
        parts.insert("two_contexts_all_merges".into(), json!({"word_pairs": pairs.len(), "max_len_sum": maxsum, "merges": merges_run.load(Ordering::Relaxed), "calls": calls.load(Ordering::Relaxed)}));
    }

    // ---------------- (4) long warm histories ----------------
    // One context composes thousands of distinct words in a row (every bundled auto-correct key,
    // every word of <= 4 letters over {a,s,e,r}); each rendering on the way is compared with the
    // default execution of the same text. Reaches what a depth-bounded BFS cannot: memo sizes in
    // the thousands.
    if crate::par::part_enabled("warm") {
        let dict = crate::data::Dict::load(&real_db());
        let mut seq: Vec<String> = dict.autocorrect.keys().filter(|k| k.chars().all(|c| c.is_ascii_lowercase())).cloned().collect();
        seq.sort();
        if !thorough {
            seq.truncate(600);
        }
        let letters: Vec<char> = "aser".chars().collect();
        let mut v = vec![String::new()];
        let mut i = 0;
        while i < v.len() {
            if v[i].len() < 4 {
                for &c in &letters {
                    let mut s = v[i].clone();
                    s.push(c);
                    v.push(s);
                }
            }
            i += 1;
        }
        seq.extend(v.into_iter().filter(|s| s.len() >= 2));
        for w in ["asgulo", "kothagulo", "amader", "bolte", "manushera", "somoyer", "phulgulo", "deshe"] {
            seq.push(w.to_string());
        }
        // very long words early and in the middle of every order: whatever scratch state (pattern buffers, capacities) a
        // long word leaves behind meets hundreds of ordinary words afterwards
        for (k, w) in ["shikkhaprotisthangulote", "oporibortonshilotaguloke", "aaaaaaaaaaaaaaaaaaaaaaaa", "biswobidyaloygulotei", "(shadhinotajuddhokalinder)."].iter().enumerate() {
            let at = if k % 2 == 0 { 3 + k } else { seq.len() / 2 + k };
            seq.insert(at.min(seq.len()), w.to_string());
        }
        // four orders of the same word list, each in its own long-lived context
        let orders: Vec<Vec<String>> = vec![
            seq.clone(),
            seq.iter().rev().cloned().collect(),
            {
                let mut s = seq.clone();
                s.sort_by_key(|w| (w.len(), w.clone()));
                s
            },
            {
                // interleave the two halves
                let (a, b) = seq.split_at(seq.len() / 2);
                a.iter().zip(b.iter()).flat_map(|(x, y)| [x.clone(), y.clone()]).collect()
            },
        ];
        let warm_cmp = AtomicU64::new(0);
        par_for(
            orders.len() * 2,
            1,
            |w| scratch_xdg(&format!("c05w-{}", w)),
            |xdg, idx| {
                let order = &orders[idx / 2];
                let mut o = Opts::phonetic(&real_db(), xdg);
                o.english = idx % 2 == 1;
                crate::drv::clear_user_files(&o);
                let mut live = Ctx::new(&o).expect("ctx");
                live.with_pre = false;
                let mut o2 = o.clone();
                o2.xdg = format!("{}-twin", xdg);
                std::fs::create_dir_all(o2.user_dir()).expect("dir");
                let mut twin = Ctx::new(&o2).expect("ctx");
                twin.with_pre = false;
                let files = BTreeMap::new();
                let mut done: u64 = 0;
                for w in order {
                    // default execution: a new method, the word typed directly
                    let _ = histgraph::fresh(&mut twin, &files);
                    let mut exp = vec![];
                    for c in w.chars() {
                        match twin.ch(c) {
                            Ok(r) => exp.push(r),
                            Err(_) => break,
                        }
                    }
                    let mut got = vec![];
                    for c in w.chars() {
                        match live.ch(c) {
                            Ok(r) => got.push(r),
                            Err(f) => {
                                report.add(fail_violation("C05", &f, &live.opts, &w.chars().map(Ev::ch).collect::<Vec<_>>()));
                                break;
                            }
                        }
                    }
                    let _ = live.apply(&Ev::Finish);
                    done += 1;
                    warm_cmp.fetch_add(got.len() as u64, Ordering::Relaxed);
                    if got != exp {
                        let k = got.iter().zip(exp.iter()).position(|(a, b)| a != b).unwrap_or(0);
                        let evs: Vec<Ev> = w.chars().take(k + 1).map(Ev::ch).collect();
                        report.add(
                            Violation::new("C05", "history-dependent-suggestion", "history-dependent:warm-context")
                                .opts(&live.opts)
                                .events(&evs)
                                .feat("text", w.clone())
                                .feat("words_composed_before_in_this_context", done.to_string())
                                .detail(format!("after {} earlier words in the same context, typing {:?}: rendering {} is {} but {} in a new context (replay shows the new-context behaviour; the warm history is the word list of the check)", done - 1, w, k, got.get(k).map(|r| r.to_json()).unwrap_or_default(), exp.get(k).map(|r| r.to_json()).unwrap_or_default())),
                        );
                    }
                }
            },
            |_| (),
        );
        compared.fetch_add(warm_cmp.load(Ordering::Relaxed), Ordering::Relaxed);
        transitions += warm_cmp.load(Ordering::Relaxed) * 2;
        parts.insert("long_warm_histories".into(), json!({"words_per_history": seq.len(), "orders": orders.len(), "configurations": 2, "renderings_compared": warm_cmp.load(Ordering::Relaxed)}));
    }

    // ---------------- (5) detours inside long words ----------------
    // The BFS alphabets are four or five characters and its depth 4-8. Here the target texts are LONG real words (bundled
    // auto-correct keys, base + suffix words, emoji names): at every position of the word one of three detours is made (a
    // letter typed and removed; the last character removed and typed again; two letters typed and removed), in ONE long-lived
    // context, and everything shown from the next key on is compared with the default execution (the word typed directly in
    // a newly created method); the list shown right after the detour is compared with the one shown before it when both
    // followed a backspace, and with the direct one otherwise.
    if crate::par::part_enabled("detour") {
        let dict = crate::data::Dict::load(&real_db());
        let mut ws: Vec<String> = dict.autocorrect.keys().filter(|k| k.len() >= 5 && k.chars().all(|c| c.is_ascii_alphabetic())).cloned().collect();
        ws.sort();
        let stride = if thorough { 1 } else { 10 };
        let mut ws: Vec<String> = ws.into_iter().step_by(stride).collect();
        for w in ["asgulo", "kothagulo", "amader", "manushera", "somoyer", "phulgulo", "Deshe", "bangladesh", "heart", "smile", "koreChilam", "shikkhaprotishThan"] {
            ws.push(w.to_string());
        }
        let det_cmp = AtomicU64::new(0);
        let det_hist = AtomicU64::new(0);
        let chunk = 16;
        let jobs = (ws.len() + chunk - 1) / chunk;
        par_for(
            jobs * 2,
            1,
            |w| scratch_xdg(&format!("c05d-{}", w)),
            |xdg, idx| {
                let mut o = Opts::phonetic(&real_db(), xdg);
                o.english = idx % 2 == 1;
                crate::drv::clear_user_files(&o);
                let mut live = Ctx::new(&o).expect("ctx");
                live.with_pre = false;
                let mut o2 = o.clone();
                o2.xdg = format!("{}-twin", xdg);
                std::fs::create_dir_all(o2.user_dir()).expect("dir");
                let mut twin = Ctx::new(&o2).expect("ctx");
                twin.with_pre = false;
                let files = BTreeMap::new();
                let j = idx / 2;
                for w in &ws[j * chunk..((j + 1) * chunk).min(ws.len())] {
                    let cs: Vec<char> = w.chars().collect();
                    let _ = histgraph::fresh(&mut twin, &files);
                    let mut exp = vec![];
                    for &c in &cs {
                        match twin.ch(c) {
                            Ok(r) => exp.push(r),
                            Err(_) => break,
                        }
                    }
                    if exp.len() != cs.len() {
                        continue; // a failing direct execution is C01's business
                    }
                    for i in 1..=cs.len() {
                        for kind in 0..3 {
                            let mut evs: Vec<Ev> = cs[..i].iter().map(|&c| Ev::ch(c)).collect();
                            match kind {
                                0 => evs.extend([Ev::ch('k'), Ev::Bs]),
                                1 => evs.extend([Ev::Bs, Ev::ch(cs[i - 1])]),
                                _ => evs.extend([Ev::ch('o'), Ev::ch('r'), Ev::Bs, Ev::Bs]),
                            }
                            let detour_end = evs.len();
                            evs.extend(cs[i..].iter().map(|&c| Ev::ch(c)));
                            let _ = live.apply(&Ev::Finish);
                            det_hist.fetch_add(1, Ordering::Relaxed);
                            let mut bad: Option<(usize, String)> = None;
                            for (n, e) in evs.iter().enumerate() {
                                match live.apply(e) {
                                    Ok(crate::drv::Out::Sugg(r)) => {
                                        // text after event n: compare when it is a key press that leaves a prefix of the word
                                        let want = if n + 1 == detour_end && kind == 1 {
                                            Some(&exp[i - 1])
                                        } else if n >= detour_end {
                                            Some(&exp[i + (n - detour_end)])
                                        } else if n < i {
                                            Some(&exp[n])
                                        } else {
                                            None
                                        };
                                        if let Some(x) = want {
                                            det_cmp.fetch_add(1, Ordering::Relaxed);
                                            if &r != x && bad.is_none() {
                                                bad = Some((n, format!("after event {} of the history the context shows {} but the word typed directly in a new context shows {}", n + 1, r.to_json(), x.to_json())));
                                            }
                                        }
                                    }
                                    Ok(_) => {}
                                    Err(f) => {
                                        report.add(fail_violation("C05", &f, &live.opts, &evs[..=n]));
                                        break;
                                    }
                                }
                            }
                            if let Some((n, d)) = bad {
                                report.add(
                                    Violation::new("C05", "history-dependent-suggestion", &format!("history-dependent:detour-{}", kind))
                                        .opts(&live.opts)
                                        .events(&evs[..=n])
                                        .feat("text", w.clone())
                                        .detail(format!("word {:?}, detour kind {} after {} characters: {}", w, kind, i, d)),
                                );
                            }
                        }
                    }
                }
            },
            |_| (),
        );
        compared.fetch_add(det_cmp.load(Ordering::Relaxed), Ordering::Relaxed);
        transitions += det_cmp.load(Ordering::Relaxed);
        parts.insert("detours_inside_long_words".into(), json!({"words": ws.len(), "detour_kinds": 3, "histories": det_hist.load(Ordering::Relaxed), "configurations": 2, "renderings_compared": det_cmp.load(Ordering::Relaxed)}));
    }

    let statics = scan_statics();
    let mut ev = Evidence::new("C05", &report.tier, "model_checking");
    ev.set("states", states.max(1));
    ev.set("transitions", transitions.max(1));
    ev.set("traces_validated_against_impl", compared.load(Ordering::Relaxed));
    ev.set("renderings_compared_with_default_execution", compared.load(Ordering::Relaxed));
    ev.set("parts", serde_json::Value::Object(parts));
    ev.set("source_scan_module_level_state_in_riti", json!(statics));
    ev.set("samples", samples.take());
    ev.set("explanation", "history BFS over the real phonetic method (state = full snapshot incl. memo contents); every suggestion returned for a non-empty text is compared with the default execution of that text in a newly created method over a store holding the live context's learned selections; plus all call-level merges of two contexts typing two words");
    ev.assume("real-thread schedules are not explored: RitiContext is !Send/!Sync and riti has no module-level state (source scan recorded above); the only interleaving between contexts is at call granularity");
    ev.assume("for a backspace-final history the default execution is: T followed by one more letter typed directly, then one backspace");
    ev
}
