//! C06 — ending a word erases every trace of it; the session flag tells the truth.
//!
//! Fixed method: state graph (suggestions off, and on with the English candidate so that the
//! raw typed keys are observable) with the four terminating events in the alphabet.
//! Phonetic method: history graph on the tiny database; after every terminating event all
//! continuations of <= 2 keys are compared with a context newly created over a store that
//! holds exactly the in-memory learned selections.

use crate::drv::{fixture, hist_short, scratch_xdg, Ctx, Ev, Fail, Opts, Out, Rend};
use crate::fxgraph::{self, hist_events, FxState, GraphStats};
use crate::histgraph::{self, HistStats};
use crate::par::par_for;
use crate::props::c01::{enabled_with_commits, fail_violation};
use crate::props::c12::key_ev;
use crate::report::{Evidence, Report, Samples, Violation};
use serde_json::json;
use std::collections::{BTreeMap, HashMap};
use std::sync::atomic::{AtomicU64, Ordering};
use std::sync::Mutex;

const FIXED_KEYS: &[(char, bool)] = &[
    ('k', false), ('r', false), ('v', false), ('a', false), ('i', false), ('[', false), ('u', false),
    ('/', false), ('>', false), (',', false), ('\'', false), ('1', false), ('k', true), ('r', true),
    ('z', true), ('K', true), ('j', true), ('\\', false),
    ('e', true), // a key whose layout value is empty: must change nothing, also right after a word ended
];

fn is_terminating(ev: &Ev) -> bool {
    matches!(ev, Ev::Commit(_) | Ev::Finish | Ev::CtrlBs)
}

pub fn run(report: &Report, thorough: bool) -> Evidence {
    let layout = fixture("layout_synth.json");
    let tiny = fixture("tiny_db");
    let samples = Samples::new(8);
    let mut parts = serde_json::Map::new();
    let mut states = 0u64;
    let mut transitions = 0u64;
    let validated = AtomicU64::new(0);

    // ---------------- fixed method ----------------
    if crate::par::part_enabled("fixed") {
        let mut alphabet: Vec<Ev> = FIXED_KEYS.iter().map(|&(c, g)| key_ev(c, g)).collect();
        // a number-pad key (its value depends on the number-pad option)
        alphabet.push(Ev::key(crate::keys::by_name("VC_KP_1").unwrap().code));
        let nkeys = alphabet.len();
        alphabet.push(Ev::Bs);
        alphabet.push(Ev::CtrlBs);
        alphabet.push(Ev::Finish);
        alphabet.push(Ev::Commit(0));
        let max_len = if thorough { 4 } else { 3 };
        let total = Mutex::new(GraphStats::default());
        let terminations = AtomicU64::new(0);
        let drain_checks = AtomicU64::new(0);
        // suggestions off: all 64 settings of {vowel, chandra, kar, reph, karorder, smart} at max_len;
        // suggestions on (+ English, so the raw key buffer is observable; every key compiles a
        // regex, ~150 us): the 16 settings of {vowel, chandra, kar, karorder} at max_len - 1
        // thorough: the deeper bound (L = 4) for the 16 settings of {vowel, chandra, kar, karorder} with reph
        // and smart quotes on; L = 3 for all 64 (a fourth level over 64 settings with all continuations is
        // ~30 G events)
        let mut jobs: Vec<(u32, usize)> = (0..64u32).map(|b| (b, 3)).collect();
        if thorough {
            for b in 0..16u32 {
                let bits = (b & 7) | 8 | ((b >> 3) << 4) | 32;
                jobs.push((bits | 1 << 9, 4));
            }
        }
        // suggestions on: every key compiles a regex (~150 us; one L = 3 search is ~20 min on one thread), so
        // L = 2 for the 16 settings in both tiers
        for b in 0..16u32 {
            jobs.push((1 << 8 | b, 2));
        }
        // "all configurations": each remaining option flipped on its own (bit 10 ANSI, bit 11 number pad, bit 12 English
        // without the suggestion list), from the all-off and the all-on helper setting; suggestions on with ANSI / number pad
        for extra in [1u32 << 10, 1 << 11, 1 << 12] {
            jobs.push((extra, 3));
            jobs.push((63 | extra, 3));
        }
        for extra in [1u32 << 10, 1 << 11] {
            jobs.push((1 << 8 | 15 | extra, 2));
            jobs.push((1 << 8 | extra, 2));
        }
        par_for(
            jobs.len(),
            1,
            |w| scratch_xdg(&format!("c06f-{}", w)),
            |xdg, ji| {
                let (bits, max_len) = jobs[ji];
                let mut o = Opts::fixed(&layout, "", xdg);
                o.fsugg = bits & (1 << 8) != 0;
                o.english = o.fsugg;
                if o.fsugg {
                    o.vowel = bits & 1 != 0;
                    o.chandra = bits & 2 != 0;
                    o.kar = bits & 4 != 0;
                    o.karorder = bits & 8 != 0;
                    o.reph = true;
                    o.smart = true;
                } else {
                    o.vowel = bits & 1 != 0;
                    o.chandra = bits & 2 != 0;
                    o.kar = bits & 4 != 0;
                    o.reph = bits & 8 != 0;
                    o.karorder = bits & 16 != 0;
                    o.smart = bits & 32 != 0;
                }
                o.ansi = bits & (1 << 10) != 0;
                o.numpad = bits & (1 << 11) != 0;
                if bits & (1 << 12) != 0 {
                    o.english = true;
                }
                // continuation keys compared with a never-used context after every word ending
                let cont_keys: Vec<usize> = if o.fsugg { if bits >> 10 != 0 { vec![0, 3, nkeys - 1] } else { vec![0, 3] } } else if bits & (1 << 9) != 0 { vec![0, 3, 4, 7, 12] } else { (0..nkeys).collect() };
                let mut ctx = Ctx::new(&o).expect("ctx");
                ctx.with_pre = false;
                // renderings of every single key and key pair in a context that has never been used
                let mut fresh1: Vec<Result<Rend, String>> = vec![];
                let mut twin = Ctx::new(&o).expect("ctx");
                twin.with_pre = false;
                for k in &alphabet[..nkeys] {
                    twin.reset().expect("reset");
                    fresh1.push(match twin.apply(k) {
                        Ok(Out::Sugg(r)) => Ok(r),
                        Ok(_) => unreachable!(),
                        Err(f) => Err(format!("{:?}", f)),
                    });
                }
                let st = fxgraph::bfs(&mut ctx, &alphabet, max_len, 64, |ctx, step| {
                    let opts_c = ctx.opts.clone();
                    let mk = |kind: &str, class: &str, extra: &[Ev], detail: String| {
                        let mut evs = hist_events(&alphabet, step.hist);
                        evs.push(step.ev.clone());
                        evs.extend(extra.iter().cloned());
                        report.add(
                            Violation::new("C06", kind, class)
                                .opts(&opts_c)
                                .feat("pre", crate::bn::esc(&step.pre.buf))
                                .feat("event", step.ev.short())
                                .events(&evs)
                                .detail(detail),
                        );
                    };
                    let out = match step.out {
                        Ok(o) => o,
                        Err(f) => {
                            let mut evs = hist_events(&alphabet, step.hist);
                            evs.push(step.ev.clone());
                            report.add(fail_violation("C06", f, &ctx.opts, &evs));
                            return;
                        }
                    };
                    validated.fetch_add(1, Ordering::Relaxed);
                    // (i) non-empty pre-edit text => ongoing session
                    if let Out::Sugg(r) = out {
                        if !r.is_empty() && !step.ongoing_after {
                            mk("shown-but-not-ongoing", "shown-but-not-ongoing", &[], format!("event returned {} but ongoing_input_session() is false", r.to_json()));
                        }
                    }
                    // which events must have ended the word?
                    let bs_to_empty = matches!((step.ev, out), (Ev::Bs, Out::Sugg(Rend::Empty)));
                    let ended = match step.ev {
                        Ev::Commit(_) | Ev::Finish => true,
                        Ev::CtrlBs => !step.pre.buf.is_empty(),
                        Ev::Bs => bs_to_empty,
                        _ => false,
                    };
                    // (iii) backspace when idle
                    if step.pre.is_idle() && matches!(step.ev, Ev::Bs | Ev::CtrlBs) {
                        if !matches!(out, Out::Sugg(Rend::Empty)) || step.ongoing_after || !step.post.is_idle() {
                            mk("idle-backspace", "idle-backspace", &[], format!("backspace when idle returned {:?}, ongoing={}, state {:?}", out, step.ongoing_after, step.post));
                        }
                    }
                    if ended {
                        terminations.fetch_add(1, Ordering::Relaxed);
                        if step.ongoing_after {
                            mk("ended-but-ongoing", &format!("ended-but-ongoing:{}", step.ev.short()), &[], "the word was ended but ongoing_input_session() is still true".into());
                        }
                        // hidden state must equal that of a new method ...
                        let leaked = !step.post.is_idle();
                        // ... and, observably, every next key behaves as in a new context
                        let saved = step.post.clone();
                        let mut observable: Option<(Ev, String)> = None;
                        for &ki in &cont_keys {
                            let k = &alphabet[ki];
                            fxgraph::restore(ctx, &saved);
                            let got = match ctx.apply(k) {
                                Ok(Out::Sugg(r)) => Ok(r),
                                Ok(_) => unreachable!(),
                                Err(f) => Err(format!("{:?}", f)),
                            };
                            let same = match (&got, &fresh1[ki]) {
                                (Ok(a), Ok(b)) => a == b,
                                (Err(_), Err(_)) => true,
                                _ => false,
                            };
                            if !same && observable.is_none() {
                                observable = Some((k.clone(), format!("used context: {:?}; new context: {:?}", got.as_ref().map(|r| r.to_json()), fresh1[ki].as_ref().map(|r| r.to_json()))));
                            }
                        }
                        fxgraph::restore(ctx, &saved);
                        if let Some((k, d)) = observable {
                            mk("leak-observable", &format!("leak:{}", step.ev.short()), &[k], format!("after the word ended the next key behaves differently from a new context: {}", d));
                        } else if leaked {
                            mk("leak-hidden", &format!("leak:{}", step.ev.short()), &[], format!("state after the word ended is {:?}, a new method has empty buffer / typed / no waiting sign", step.post));
                        }
                    }
                    // (iv) |composition|+1 backspaces reach idle (checked once per state, on its first expansion symbol)
                    if step.sym == 0 && !step.pre.is_idle() {
                        drain_checks.fetch_add(1, Ordering::Relaxed);
                        let saved = step.post.clone();
                        fxgraph::restore(ctx, step.pre);
                        let n = step.pre.len() + 1;
                        let mut reached = false;
                        let mut bss = vec![];
                        for _ in 0..n {
                            bss.push(Ev::Bs);
                            match ctx.apply(&Ev::Bs) {
                                // ("reach the idle state": an empty suggestion AND no session)
                                Ok(Out::Sugg(Rend::Empty)) if !ctx.ongoing() => {
                                    reached = true;
                                    break;
                                }
                                Ok(_) => {}
                                Err(_) => break,
                            }
                        }
                        let end = fxgraph::read_state(ctx);
                        if !reached || ctx.ongoing() || !end.is_idle() {
                            // report with the history that reaches `pre` followed by the backspaces
                            let evs: Vec<Ev> = hist_events(&alphabet, step.hist).into_iter().chain(bss.into_iter()).collect();
                            report.add(
                                Violation::new("C06", "backspaces-do-not-drain", "backspaces-do-not-drain")
                                    .opts(&ctx.opts)
                                    .feat("pre", crate::bn::esc(&step.pre.buf))
                                    .events(&evs)
                                    .detail(format!("{} backspaces from {:?}: empty suggestion seen={}, ongoing={}, state {:?}", n, step.pre, reached, ctx.ongoing(), end)),
                            );
                        }
                        fxgraph::restore(ctx, &saved);
                    }
                });
                total.lock().unwrap().merge(&st);
            },
            |_| (),
        );
        let st = total.lock().unwrap().clone();
        states += st.states;
        transitions += st.transitions;
        parts.insert("fixed_graph".into(), json!({"configurations": jobs.len(), "alphabet": alphabet.len(), "max_len": max_len, "states": st.states, "transitions": st.transitions, "cut": st.cut_transitions, "word_endings_checked": terminations.load(Ordering::Relaxed), "drain_checks": drain_checks.load(Ordering::Relaxed)}));
    }

    // ---------------- phonetic method ----------------
    // two alphabets: letters whose words split into base + suffix, and punctuation / emoticon
    // characters (compositions without a word part, e.g. the emoticon ;) with its emoji)
    // ... and letter case (t / T are different letters, the tiny dictionary has words for both)
    let plans: Vec<(&str, usize)> = vec![("aser", if thorough { 6 } else { 5 }), ("a;).:", if thorough { 5 } else { 3 }), ("tTu", if thorough { 5 } else { 4 }),
        // the characters the word splitter treats specially: the back-tick produces no output of its own, so a composition can
        // be non-empty while nothing is shown
        ("k`:", if thorough { 5 } else { 3 })];
    let mut ph_parts = vec![];
    for (plan_keys, depth) in plans {
      if crate::par::part_enabled("phonetic") {
        let keys: Vec<Ev> = plan_keys.chars().map(Ev::ch).collect();
        let conts: Vec<Vec<Ev>> = {
            let mut v: Vec<Vec<Ev>> = keys.iter().map(|k| vec![k.clone()]).collect();
            for a in &keys {
                for b in &keys {
                    v.push(vec![a.clone(), b.clone()]);
                }
            }
            v
        };
        let mut total = HistStats::default();
        let endings = AtomicU64::new(0);
        let cont_runs = AtomicU64::new(0);
        let mut n_cfg = 0;
        // {English, suggestions} x ANSI off, then ANSI on and smart quotes off (each with suggestions on and off)
        // (the four ANSI / smart-quote variants one level less deep; the letter-case alphabet under three configurations)
        for bits in [0u32, 1, 2, 3, 4, 6, 8, 11] {
            if plan_keys == "tTu" && ![0u32, 1, 4].contains(&bits) {
                continue;
            }
            let depth = if bits >= 4 && !thorough { depth - 1 } else { depth };
            n_cfg += 1;
            let mut o = Opts::phonetic(&tiny, "");
            o.english = bits & 1 != 0;
            o.psugg = bits & 2 == 0;
            o.ansi = bits & 4 != 0;
            o.smart = bits & 8 == 0;
            let files = BTreeMap::new();
            // per-worker twin contexts are created lazily inside visit via thread-local map
            thread_local! {
                static TWIN: std::cell::RefCell<HashMap<String, Ctx>> = std::cell::RefCell::new(HashMap::new());
                static FRESH_CACHE: std::cell::RefCell<HashMap<String, Vec<Result<Vec<Rend>, String>>>> = std::cell::RefCell::new(HashMap::new());
            }
            let run_conts = |ctx: &mut Ctx, pre: &dyn Fn(&mut Ctx) -> bool| -> Vec<Result<Vec<Rend>, String>> {
                let mut res = vec![];
                for c in &conts {
                    if !pre(ctx) {
                        res.push(Err("prefix failed".into()));
                        continue;
                    }
                    let mut rs = vec![];
                    let mut err = None;
                    for e in c {
                        match ctx.apply(e) {
                            Ok(Out::Sugg(r)) => rs.push(r),
                            Ok(_) => {}
                            Err(f) => {
                                err = Some(format!("{:?}", f));
                                break;
                            }
                        }
                    }
                    res.push(match err {
                        Some(e) => Err(e),
                        None => Ok(rs),
                    });
                }
                res
            };
            let st = histgraph::bfs(
                |w| {
                    let mut o = o.clone();
                    o.xdg = scratch_xdg(&format!("c06p-{}-{}-{}", depth, bits, w));
                    Ctx::new(&o).expect("ctx")
                },
                &files,
                &[],
                depth,
                |_h, shown, _ctx| enabled_with_commits(&keys, shown, &[]),
                |ctx, step| {
                    let mut evs = step.hist.to_vec();
                    evs.push(step.ev.clone());
                    let out = match step.out {
                        Ok(o) => o,
                        Err(f) => {
                            report.add(fail_violation("C06", f, &ctx.opts, &evs));
                            return;
                        }
                    };
                    validated.fetch_add(1, Ordering::Relaxed);
                    let ongoing_after = ctx.ongoing();
                    let opts_c = ctx.opts.clone();
                    // (for the predicates of KNOWN_FINDINGS.json: what is left of the composition after a backspace)
                    let left_after_bs = if matches!(step.ev, Ev::Bs) && ongoing_after { ctx.snapshot_json(0)["buffer"].as_str().unwrap_or("").to_string() } else { String::new() };
                    let mk = |kind: &str, class: &str, extra: &[Ev], detail: String| {
                        let mut e = evs.clone();
                        e.extend(extra.iter().cloned());
                        report.add(
                            Violation::new("C06", kind, class)
                                .opts(&opts_c)
                                .feat("event", step.ev.short())
                                .feat("candidate_list", if opts_c.psugg { "on" } else { "off" })
                                .feat("composition_left_by_the_backspace", left_after_bs.clone())
                                .events(&e)
                                .detail(detail),
                        );
                    };
                    if let Out::Sugg(r) = out {
                        if !r.is_empty() && !ongoing_after {
                            mk("shown-but-not-ongoing", "shown-but-not-ongoing", &[], format!("event returned {} but ongoing_input_session() is false", r.to_json()));
                        }
                    }
                    if !step.ongoing_before && matches!(step.ev, Ev::Bs | Ev::CtrlBs) {
                        if !matches!(out, Out::Sugg(Rend::Empty)) || ongoing_after {
                            mk("idle-backspace", "idle-backspace", &[], format!("backspace when idle returned {:?}, ongoing={}", out, ongoing_after));
                        }
                    }
                    let ended = match step.ev {
                        Ev::Commit(_) | Ev::Finish => true,
                        Ev::CtrlBs => step.ongoing_before,
                        Ev::Bs => matches!(out, Out::Sugg(Rend::Empty)) && step.ongoing_before,
                        _ => false,
                    };
                    // repeated backspaces always reach idle
                    if !ended && ongoing_after {
                        let snap = ctx.snapshot_json(0);
                        let n = snap["buffer"].as_str().unwrap_or("").chars().count() + 1;
                        let mut reached = false;
                        for _ in 0..n {
                            // ("reach the idle state": an empty suggestion AND no session)
                            match ctx.apply(&Ev::Bs) {
                                Ok(Out::Sugg(Rend::Empty)) => {
                                    if !ctx.ongoing() {
                                        reached = true;
                                        break;
                                    }
                                }
                                Ok(_) => {}
                                Err(_) => break,
                            }
                        }
                        if !reached || ctx.ongoing() {
                            mk("backspaces-do-not-drain", "backspaces-do-not-drain", &vec![Ev::Bs; n], format!("{} backspaces did not reach the idle state", n));
                        }
                        return;
                    }
                    if !ended {
                        return;
                    }
                    endings.fetch_add(1, Ordering::Relaxed);
                    if ongoing_after {
                        mk("ended-but-ongoing", &format!("ended-but-ongoing:{}", step.ev.short()), &[], "the word was ended but ongoing_input_session() is still true".into());
                    }
                    let snap = ctx.snapshot_json(1);
                    if snap["buffer"].as_str() != Some("") {
                        mk("leak-hidden", "leak-hidden:buffer", &[], format!("buffer after the word ended: {}", snap["buffer"]));
                    }
                    // differential continuation against a new context with the same learned selections
                    let selections = snap["selections"].clone();
                    let sel_text = selections.to_string();
                    let used = run_conts(ctx, &|c: &mut Ctx| histgraph::replay(c, &files, &evs).failed_at.is_none());
                    cont_runs.fetch_add(conts.len() as u64, Ordering::Relaxed);
                    let fresh: Vec<Result<Vec<Rend>, String>> = FRESH_CACHE.with(|fc| {
                        let key = format!("{}|{}", ctx.opts.flags(), sel_text);
                        if let Some(v) = fc.borrow().get(&key) {
                            return v.clone();
                        }
                        let v = TWIN.with(|tw| {
                            let mut tw = tw.borrow_mut();
                            let twin = tw.entry(ctx.opts.flags()).or_insert_with(|| {
                                let mut o2 = ctx.opts.clone();
                                o2.xdg = format!("{}-twin", ctx.opts.xdg);
                                std::fs::create_dir_all(o2.user_dir()).expect("twin dir");
                                Ctx::new(&o2).expect("twin ctx")
                            });
                            let mut f2 = BTreeMap::new();
                            if selections.as_object().map(|m| !m.is_empty()).unwrap_or(false) {
                                f2.insert("phonetic-candidate-selection.json".to_string(), sel_text.clone());
                            }
                            run_conts(twin, &|c: &mut Ctx| histgraph::fresh(c, &f2).is_ok())
                        });
                        fc.borrow_mut().insert(key, v.clone());
                        v
                    });
                    for (i, (u, f)) in used.iter().zip(fresh.iter()).enumerate() {
                        let same = match (u, f) {
                            (Ok(a), Ok(b)) => a == b,
                            (Err(_), Err(_)) => true,
                            _ => false,
                        };
                        if !same {
                            mk(
                                "leak-observable",
                                &format!("leak:{}", step.ev.short()),
                                &conts[i],
                                format!("continuation [{}]: used context {:?}; new context with the same learned selections {} gives {:?}", hist_short(&conts[i]), u.as_ref().map(|v| v.iter().map(|r| r.to_json()).collect::<Vec<_>>()), sel_text, f.as_ref().map(|v| v.iter().map(|r| r.to_json()).collect::<Vec<_>>())),
                            );
                            break;
                        }
                    }
                    if step.hist.len() == 3 {
                        samples.offer(|| json!({"history": hist_short(&evs), "learned": selections, "continuations_compared": conts.len()}));
                    }
                },
                |_| true,
            );
            total.states += st.states;
            total.transitions += st.transitions;
            total.replayed_events += st.replayed_events;
            total.distinct_outcomes += st.distinct_outcomes;
            total.max_depth = total.max_depth.max(st.max_depth);
        }
        states += total.states;
        transitions += total.transitions;
        ph_parts.push(json!({"keys": plan_keys, "configurations": n_cfg, "depth": depth, "states": total.states, "transitions": total.transitions, "word_endings_checked": endings.load(Ordering::Relaxed), "continuations_replayed_in_used_context": cont_runs.load(Ordering::Relaxed), "continuation_set": conts.len(), "distinct_outcomes": total.distinct_outcomes}));
      }
    }
    parts.insert("phonetic_graphs".into(), json!(ph_parts));

    // ---------------- long-lived context: hundreds of words, ended in all four ways ----------------
    // "behaves from then on exactly like a newly created context" must also hold after MANY ended words
    // (memo sizes a depth-bounded search never reaches). One context composes a word list; word i is ended by
    // terminator i mod 4 (finish / commit of the preselected candidate / ctrl-backspace / backspaces to empty);
    // every rendering of the next word is compared with a newly created method (nothing is learned on the way).
    if crate::par::part_enabled("long") {
        let dict = crate::data::Dict::load(&crate::drv::real_db());
        let mut seq: Vec<String> = dict.autocorrect.keys().filter(|k| k.chars().all(|c| c.is_ascii_lowercase()) && k.len() <= 8).cloned().collect();
        seq.sort();
        seq.truncate(if thorough { 1500 } else { 250 });
        for base in ["ami", "as", "kotha", "desh", "boi", "manush", "din", "rat"] {
            for sfx in ["gulo", "er", "ke", "ra", "te", "tei"] {
                seq.push(format!("{}{}", base, sfx));
            }
        }
        let orders: Vec<Vec<String>> = vec![seq.clone(), seq.iter().rev().cloned().collect(), {
            let (a, b) = seq.split_at(seq.len() / 2);
            a.iter().zip(b.iter()).flat_map(|(x, y)| [x.clone(), y.clone()]).collect()
        }];
        let long_cmp = AtomicU64::new(0);
        par_for(
            orders.len() * 2,
            1,
            |w| scratch_xdg(&format!("c06l-{}", w)),
            |xdg, idx| {
                let order = &orders[idx / 2];
                let mut o = Opts::phonetic(&crate::drv::real_db(), xdg);
                o.english = idx % 2 == 1;
                crate::drv::clear_user_files(&o);
                let mut used = Ctx::new(&o).expect("ctx");
                used.with_pre = false;
                let mut o2 = o.clone();
                o2.xdg = format!("{}-fresh", xdg);
                std::fs::create_dir_all(o2.user_dir()).expect("dir");
                let mut fresh = Ctx::new(&o2).expect("ctx");
                fresh.with_pre = false;
                let files = BTreeMap::new();
                for (i, w) in order.iter().enumerate() {
                    let _ = histgraph::fresh(&mut fresh, &files);
                    let mut exp = vec![];
                    for c in w.chars() {
                        if let Ok(r) = fresh.ch(c) {
                            exp.push(r);
                        }
                    }
                    let mut got = vec![];
                    let mut last: Option<Rend> = None;
                    for c in w.chars() {
                        if let Ok(r) = used.ch(c) {
                            last = Some(r.clone());
                            got.push(r);
                        }
                    }
                    long_cmp.fetch_add(got.len() as u64, Ordering::Relaxed);
                    if got != exp {
                        let k = got.iter().zip(exp.iter()).position(|(a, b)| a != b).unwrap_or(0);
                        report.add(
                            Violation::new("C06", "leak-observable", "leak:after-many-ended-words")
                                .opts(&o)
                                .events(&w.chars().take(k + 1).map(Ev::ch).collect::<Vec<_>>())
                                .feat("words_ended_before_in_this_context", i.to_string())
                                .detail(format!("after {} words ended in this context (finish / commit of the preselected candidate / ctrl-backspace / backspaces in turn), typing {:?}: rendering {} is {} but {} in a newly created context", i, w, k, got.get(k).map(|r| r.to_json()).unwrap_or_default(), exp.get(k).map(|r| r.to_json()).unwrap_or_default())),
                        );
                    }
                    // end the word
                    match i % 4 {
                        0 => {
                            let _ = used.apply(&Ev::Finish);
                        }
                        1 => {
                            let sel = last.as_ref().map(|r| r.sel().min(r.len().saturating_sub(1))).unwrap_or(0);
                            let _ = used.apply(&Ev::Commit(sel));
                        }
                        2 => {
                            let _ = used.apply(&Ev::CtrlBs);
                        }
                        _ => {
                            for _ in 0..w.chars().count() {
                                let _ = used.apply(&Ev::Bs);
                            }
                        }
                    }
                    if used.ongoing() {
                        report.add(Violation::new("C06", "ended-but-ongoing", "ended-but-ongoing:long").opts(&o).events(&w.chars().map(Ev::ch).collect::<Vec<_>>()).detail(format!("word {} ({:?}) ended with terminator {} but the session is still ongoing", i, w, i % 4)));
                        let _ = used.apply(&Ev::Finish);
                    }
                }
            },
            |_| (),
        );
        transitions += long_cmp.load(Ordering::Relaxed);
        parts.insert("long_lived_context".into(), json!({"words_per_history": seq.len(), "orders": orders.len(), "configurations": 2, "renderings_compared_with_a_new_context": long_cmp.load(Ordering::Relaxed)}));
    }

    let mut ev = Evidence::new("C06", &report.tier, "model_checking");
    ev.set("states", states);
    ev.set("transitions", transitions);
    ev.set("traces_validated_against_impl", validated.load(Ordering::Relaxed));
    ev.set("parts", serde_json::Value::Object(parts));
    ev.set("samples", samples.take());
    ev.set("explanation", "fixed: explicit-state BFS, every word ending checked for session flag, hidden state == new method, and every next key compared with a never-used context; phonetic: history BFS, every word ending followed by all continuations of <= 2 keys compared with a context newly created over a store holding the in-memory learned selections");
    ev.assume("fixed graph with suggestions on uses no database (the candidate list is the composed text, emoji and the raw typed keys), which is what makes the raw key buffer observable");
    ev
}
