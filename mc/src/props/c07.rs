//! C07 — phonetic candidates are ranked best-first by a fixed, explainable order.
//! C08 — dictionary-derived candidates are justified, and suffix forms are complete.
//!
//! Both checks run the same exhaustive walks (phon::Walker) and differ in the clauses judged.

use crate::avro::Avro;
use crate::data::Dict;
use crate::drv::{real_db, scratch_xdg, Ctx, Ev, Opts};
use crate::par::par_for;
use crate::phon::{Counters, Oracle, Walker, Which};
use crate::report::{Evidence, Report, Samples};
use serde_json::json;
use std::collections::HashMap;
use std::sync::Mutex;

/// user auto-correct entries: for words without a bundled entry, and (last five) for words that HAVE a bundled
/// entry — the user's must win
const USER_AC: &[(&str, &str)] = &[("as", "ash"), ("a", "oi"), ("ser", "seer"), ("kk", "kOkk"), ("zz", "jhal"), ("ami", "amra"), ("academy", "ekaDemi"), ("rss", "aresses"), ("form", "phOrm"), ("ac", "ese"), ("ad", "eD")];

#[derive(Clone)]
struct Cfg {
    english: bool,
    ansi: bool,
    smart: bool,
    user_ac: bool,
}

fn merge(a: &mut Counters, b: &Counters) {
    a.lists += b.lists;
    a.candidates += b.candidates;
    a.dict_justified += b.dict_justified;
    a.suffix_justified += b.suffix_justified;
    a.completeness_obligations += b.completeness_obligations;
    a.with_autocorrect += b.with_autocorrect;
    a.with_emoji += b.with_emoji;
    // keep a handful of samples, spread over the walkers (every 97th offer once the first few are in)
    for v in &b.samples {
        if a.samples.len() < 4 || (a.lists / 97) % 13 == 0 && a.samples.len() < 8 {
            a.samples.push(v.clone());
        }
    }
}

pub fn run_which(report: &Report, thorough: bool, which: Which) -> Evidence {
    let dict = Dict::load(&real_db());
    let avro = Avro::new();
    let emoji = crate::props::c15::emoji_set();
    let emoticons: HashMap<String, String> = emojicon::internal::emoticons().into_iter().map(|(k, v)| (k.to_string(), v.to_string())).collect();
    let samples = Samples::new(8);
    let total = Mutex::new(Counters::default());
    let events = Mutex::new(0u64);
    let mut parts = serde_json::Map::new();

    let all16: Vec<Cfg> = (0..16).map(|b| Cfg { english: b & 1 != 0, ansi: b & 2 != 0, smart: b & 4 != 0, user_ac: b & 8 != 0 }).collect();
    let two: Vec<Cfg> = vec![Cfg { english: false, ansi: false, smart: true, user_ac: false }, Cfg { english: true, ansi: false, smart: true, user_ac: true }];
    let one: Vec<Cfg> = vec![Cfg { english: true, ansi: false, smart: true, user_ac: false }];

    let mk_oracle = |c: &Cfg| Oracle {
        dict: &dict,
        avro: &avro,
        emoji: &emoji,
        emoticons: &emoticons,
        report,
        which,
        user_ac: if c.user_ac { USER_AC.iter().map(|(k, v)| (k.to_string(), v.to_string())).collect() } else { HashMap::new() },
    };
    let mk_ctx = |c: &Cfg, xdg: &str, job: usize| -> Ctx {
        let mut o = Opts::phonetic(&real_db(), xdg);
        o.english = c.english;
        o.ansi = c.ansi;
        o.smart = c.smart;
        // one job in four each: a context re-configured from the inverted options, one switched over from a fixed layout, one built
        // on a used Config object
        o.via_update = job % 4 == 1;
        o.via_switch = job % 4 == 2;
        o.churn = job % 4 == 3;
        crate::drv::clear_user_files(&o);
        if c.user_ac {
            let m: serde_json::Map<String, serde_json::Value> = USER_AC.iter().map(|(k, v)| (k.to_string(), json!(v))).collect();
            std::fs::write(o.user_autocorrect_file(), serde_json::Value::Object(m).to_string()).expect("user autocorrect");
        }
        let mut ctx = Ctx::new(&o).expect("ctx");
        ctx.with_pre = false;
        ctx
    };
    // generic runner: items = (cfg index, job index); job(walker, job index)
    let run = |name: &str, cfgs: &[Cfg], njobs: usize, job: &(dyn Fn(&mut Walker, usize) + Sync)| {
        par_for(
            cfgs.len() * njobs,
            1,
            |w| scratch_xdg(&format!("c07-{}-{}", name, w)),
            |xdg, idx| {
                let cfg = &cfgs[idx % cfgs.len()];
                let oracle = mk_oracle(cfg);
                let ctx = mk_ctx(cfg, xdg, idx / cfgs.len());
                let mut w = Walker::new(ctx, &oracle);
                job(&mut w, idx / cfgs.len());
                merge(&mut total.lock().unwrap(), &w.cnt);
                *events.lock().unwrap() += w.events;
            },
            |_| (),
        );
    };

    // W1: all strings of length <= 2 over the 94 typeable characters, all 16 configurations
    if crate::par::part_enabled("W1") {
        let all94: Vec<char> = (33u8..=126).map(|b| b as char).collect();
        run("W1", &all16, all94.len(), &|w, j| {
            if w.press(all94[j]) {
                w.rec(&all94, 1);
                w.back();
            }
        });
        parts.insert("W1_all_strings_len2_94chars".into(), json!({"configurations": 16}));
    }
    // W2: all lower-case strings of length <= 3 (quick) / 4 (thorough)
    if crate::par::part_enabled("W2") {
        let az: Vec<char> = ('a'..='z').collect();
        let n = if thorough { 4 } else { 3 };
        let prefixes: Vec<String> = az.iter().flat_map(|a| az.iter().map(move |b| format!("{}{}", a, b))).collect();
        run("W2", &two, prefixes.len(), &|w, j| {
            let p = &prefixes[j];
            let mut ok = true;
            for c in p.chars() {
                if !w.press(c) {
                    ok = false;
                    break;
                }
            }
            if ok {
                w.rec(&az, n - 2);
            }
        });
        parts.insert("W2_lowercase_words".into(), json!({"max_len": n, "configurations": 2}));
    }
    // W3: every bundled auto-correct key
    if crate::par::part_enabled("W3") {
        let mut keys: Vec<&String> = dict.autocorrect.keys().filter(|k| k.chars().all(|c| crate::keys::code_for_char(c).is_some())).collect();
        keys.sort();
        let chunks: Vec<&[&String]> = keys.chunks(32).collect();
        run("W3", &two, chunks.len(), &|w, j| {
            for k in chunks[j] {
                w.type_word(k);
            }
        });
        parts.insert("W3_autocorrect_keys".into(), json!({"keys": keys.len(), "configurations": 2}));
    }
    // W4: bases x all suffix keys
    if crate::par::part_enabled("W4") {
        let mut sfx: Vec<&String> = dict.suffix.keys().collect();
        sfx.sort();
        let quick_bases = ["ami", "as", "kotha", "boi", "ma", "hat", "rong", "sot", "ke", "desh", "bari", "jol", "a", "ko", "manush", "phul", "raja", "nodi", "bhasha", "sokal", "din", "e", "o", "tumi"];
        let mut bases: Vec<String> = quick_bases.iter().map(|s| s.to_string()).collect();
        if thorough {
            let mut ac: Vec<&String> = dict.autocorrect.keys().filter(|k| k.chars().all(|c| c.is_ascii_lowercase())).collect();
            ac.sort();
            bases.extend(ac.into_iter().take(1200).cloned());
            let az: Vec<char> = ('a'..='z').collect();
            for a in &az {
                for b in &az {
                    bases.push(format!("{}{}", a, b));
                }
            }
        }
        let wraps: Vec<(&str, &str)> = vec![("", ""), ("(", ")"), ("\"", ".")];
        run("W4", &one, bases.len(), &|w, j| {
            let base = &bases[j];
            for (l, t) in &wraps {
                if !(l.is_empty() && t.is_empty()) && j % 4 != 0 && !thorough {
                    continue; // wrapped forms on every fourth base in the quick tier (a fixed sub-list)
                }
                let mut ok = true;
                for c in l.chars().chain(base.chars()) {
                    if !w.press(c) {
                        ok = false;
                        break;
                    }
                }
                if ok {
                    for s in &sfx {
                        let mut typed = 0;
                        for c in s.chars().chain(t.chars()) {
                            if !w.press(c) {
                                break;
                            }
                            typed += 1;
                        }
                        for _ in 0..typed {
                            w.back();
                        }
                    }
                }
                w.finish();
            }
        });
        parts.insert("W4_bases_times_suffixes".into(), json!({"bases": bases.len(), "suffix_keys": sfx.len(), "wrappings": wraps.len()}));
    }

    // W5: every English emoji name (the emoji clause meets real words here: names that are also bases + suffixes, names with
    // an auto-correct entry), bare and - every fourth one - wrapped
    if crate::par::part_enabled("W5") {
        let mut names: Vec<String> = emojicon::internal::emojis().keys().map(|k| k.to_string()).filter(|k| !k.is_empty() && k.chars().all(|c| crate::keys::code_for_char(c).is_some())).collect();
        names.sort();
        let chunks: Vec<&[String]> = names.chunks(32).collect();
        run("W5", &two, chunks.len(), &|w, j| {
            for (i, k) in chunks[j].iter().enumerate() {
                w.type_word(k);
                if i % 4 == 0 || thorough {
                    w.type_word(&format!("({}).", k));
                }
            }
        });
        parts.insert("W5_emoji_names".into(), json!({"names": names.len(), "configurations": 2}));
    }

    // W6: the same clauses over a LEARNED store. For a few bases every candidate index is committed in turn (new store each time:
    // the emoji of a name, the raw English text, an auto-correct entry, a dictionary word), then the base is typed again with a set of
    // suffixes: what the engine derives from a learned choice (learned base + suffix) must still be a justified, correctly placed
    // candidate - a learned choice may move the preselection, never the content of the list
    if crate::par::part_enabled("W6") {
        let bases = ["atm", "cool", "as", "ami", "help", "sot", "kotha", "rong", "a", "boi"];
        let sfx = ["e", "er", "gulo", "ke", "ra", "te", "i", "o", "der", "ei"];
        let nb = if thorough { bases.len() } else { 6 };
        run("W6", &two, nb, &|w, j| {
            let base = bases[j];
            // (the user's auto-correct file of this configuration is put back each time the store is emptied)
            let mut files = std::collections::BTreeMap::new();
            if !w.oracle.user_ac.is_empty() {
                let m: serde_json::Map<String, serde_json::Value> = w.oracle.user_ac.iter().map(|(k, v)| (k.clone(), json!(v))).collect();
                files.insert("autocorrect.json".to_string(), serde_json::Value::Object(m).to_string());
            }
            // number of candidates of the base on an empty store
            let _ = crate::histgraph::fresh(&mut w.ctx, &files);
            let mut n = 0;
            for c in base.chars() {
                if let Ok(r) = w.ctx.ch(c) {
                    n = r.len();
                }
            }
            for i in 0..n {
                if crate::histgraph::fresh(&mut w.ctx, &files).is_err() {
                    continue;
                }
                w.text.clear();
                w.prefix.clear();
                let mut ok = true;
                for c in base.chars() {
                    ok &= w.press(c);
                }
                if !ok || w.ctx.apply(&Ev::Commit(i)).is_err() {
                    continue;
                }
                w.prefix = base.chars().map(Ev::ch).chain(std::iter::once(Ev::Commit(i))).collect();
                w.text.clear();
                w.type_word(base);
                for s in &sfx {
                    w.type_word(&format!("{}{}", base, s));
                    if s.len() == 2 {
                        w.type_word(&format!("({}{}).", base, s));
                    }
                }
                w.prefix.clear();
            }
            let _ = crate::histgraph::fresh(&mut w.ctx, &files);
        });
        parts.insert("W6_learned_stores".into(), json!({"bases": nb, "suffixes": sfx.len(), "every_candidate_index_learned": true, "configurations": 2}));
    }

    let t = total.lock().unwrap();
    let id = if which == Which::C07 { "C07" } else { "C08" };
    let mut ev = Evidence::new(id, &report.tier, "model_checking");
    ev.set("states", t.lists.max(1));
    ev.set("transitions", (*events.lock().unwrap()).max(1));
    ev.set("traces_validated_against_impl", t.lists);
    ev.set("candidates_classified", t.candidates);
    ev.set("candidates_justified_as_dictionary_match", t.dict_justified);
    ev.set("candidates_justified_as_suffix_form", t.suffix_justified);
    ev.set("suffix_completeness_obligations", t.completeness_obligations);
    ev.set("lists_with_autocorrect_entry", t.with_autocorrect);
    ev.set("lists_with_emoji", t.with_emoji);
    ev.set("parts", serde_json::Value::Object(parts));
    let _ = &samples;
    ev.set("samples", t.samples.clone());
    ev.set("exhaustive", true);
    ev.set("explanation", "states = candidate lists judged (one per typed text reached, incl. the lists re-shown after a backspace), transitions = real key/backspace events; every candidate is classified by the harness from the data files, okkhor and emojicon, never from riti's own bookkeeping");
    ev.assume("okkhor (transliteration and pattern), edit-distance, emojicon tables and the data JSON files are read/called by the harness itself");
    ev.assume("direct candidates of a base are those the harness has itself seen in the base's list earlier in the same walk");
    ev
}

pub fn run(report: &Report, thorough: bool) -> Evidence {
    run_which(report, thorough, Which::C07)
}
pub fn run_c08(report: &Report, thorough: bool) -> Evidence {
    run_which(report, thorough, Which::C08)
}
