//! C09 — a learned candidate choice is remembered, also after a restart.
//!
//! Enumerated: every word of <= 3 letters over a 6-letter alphabet (real data), bare and in
//! five wrappings; for EVERY candidate index i of its list: start from an empty store
//! (optionally after one or two other learning commits), type the text, commit(i); then
//!   R1  re-type in the same context and after a restart: the preselected candidate is the
//!       committed text;
//!   R2  the word followed by a known suffix preselects the joined candidate when it is offered
//!       and the suffixed word has no entry of its own;
//!   R3  committing the preselected candidate leaves the store file untouched;
//!   R4  after every commit the file is a JSON object of strings that a new context loads.

use crate::avro::{join, split_ref, Avro};
use crate::data::Dict;
use crate::drv::{real_db, scratch_xdg, Ctx, Ev, Opts, Out, Rend};
use crate::histgraph;
use crate::par::par_for;
use crate::props::c01::fail_violation;
use crate::report::{Evidence, Report, Samples, Violation};
use serde_json::json;
use std::collections::BTreeMap;
use std::sync::atomic::{AtomicU64, Ordering};

/// type a text with front-end emulation (selection byte = preselected index of the shown list)
fn type_text(ctx: &mut Ctx, text: &str, evs: &mut Vec<Ev>) -> Result<Option<Rend>, crate::drv::Fail> {
    let mut shown: Option<Rend> = None;
    for c in text.chars() {
        let sel = shown.as_ref().map(|r| r.sel().min(255) as u8).unwrap_or(0);
        let ev = Ev::Key { code: crate::keys::code_for_char(c).unwrap(), m: 0, sel };
        evs.push(ev.clone());
        match ctx.apply(&ev)? {
            Out::Sugg(r) => shown = Some(r),
            Out::Unit => {}
        }
    }
    Ok(shown)
}

fn file_state(o: &Opts) -> Option<Vec<u8>> {
    std::fs::read(o.selection_file()).ok()
}

pub fn run(report: &Report, thorough: bool) -> Evidence {
    let dict = Dict::load(&real_db());
    let avro = Avro::new();
    let emoji = crate::props::c15::emoji_set();
    let samples = Samples::new(8);
    let letters: Vec<char> = if thorough { "aserko".chars().collect() } else { "aserk".chars().collect() };
    let maxw = 3;
    let mut words: Vec<String> = vec![];
    {
        let mut v = vec![String::new()];
        let mut i = 0;
        while i < v.len() {
            if v[i].len() < maxw {
                for &c in &letters {
                    let mut s = v[i].clone();
                    s.push(c);
                    v.push(s);
                }
            }
            i += 1;
        }
        words.extend(v.into_iter().filter(|s| !s.is_empty()));
    }
    words.push("sesh".into());
    words.push("ami".into());
    // data-guided words, one group per FINAL CHARACTER CLASS of a non-first candidate (the joining of a learned base with a
    // suffix depends on it: final khanda-ta, anusvara, vowel sign, independent vowel, chandrabindu, visarga, hasanta, plain
    // consonant): all lower-case words of <= 3 letters and the bundled auto-correct keys of <= 8 letters are typed once, and
    // the first few words of each class are added
    let mut class_words: Vec<(String, String)> = vec![];
    {
        let az: Vec<char> = ('a'..='z').collect();
        let mut cand: Vec<String> = vec![];
        for &a in &az {
            for &b in &az {
                cand.push(format!("{}{}", a, b));
                for &c in &az {
                    cand.push(format!("{}{}{}", a, b, c));
                }
            }
        }
        let mut ac: Vec<String> = dict.autocorrect.keys().filter(|k| k.len() >= 4 && k.len() <= 8 && k.chars().all(|c| c.is_ascii_lowercase())).cloned().collect();
        ac.sort();
        cand.extend(ac);
        let found: std::sync::Mutex<Vec<(usize, &'static str, String)>> = std::sync::Mutex::new(vec![]);
        let chunk = (cand.len() + 63) / 64;
        par_for(
            64,
            1,
            |w| scratch_xdg(&format!("c09scan-{}", w)),
            |xdg, j| {
                let o = Opts::phonetic(&real_db(), xdg);
                crate::drv::clear_user_files(&o);
                let mut ctx = Ctx::new(&o).expect("ctx");
                ctx.with_pre = false;
                let mut local = vec![];
                for (k, w) in cand.iter().enumerate().skip(j * chunk).take(chunk) {
                    let _ = ctx.apply(&Ev::Finish);
                    let mut last = None;
                    for ch in w.chars() {
                        last = ctx.ch(ch).ok();
                    }
                    let Some(r) = last else { continue };
                    for c in r.items().iter().skip(1) {
                        let cls = match c.chars().last() {
                            Some('\u{09CE}') => "khanda-ta",
                            Some('\u{0982}') => "anusvara",
                            Some('\u{0981}') => "chandrabindu",
                            Some('\u{0983}') => "visarga",
                            Some('\u{09CD}') => "hasanta",
                            Some(x) if crate::bn::is_sign(x) => "sign",
                            Some(x) if crate::bn::is_indep_vowel(x) => "vowel",
                            _ => continue,
                        };
                        local.push((k, cls, w.clone()));
                    }
                }
                found.lock().unwrap().extend(local);
            },
            |_| (),
        );
        let mut found = found.into_inner().unwrap();
        found.sort();
        found.dedup();
        let per_class = if thorough { 12 } else { 4 };
        let mut count: std::collections::HashMap<&str, usize> = std::collections::HashMap::new();
        for (_, cls, w) in found {
            if words.contains(&w) || class_words.iter().any(|(_, x)| *x == w) {
                continue;
            }
            let n = count.entry(cls).or_default();
            // khanda-ta and anusvara are the two classes the joining rewrites: more of them
            let cap = if cls == "khanda-ta" || cls == "anusvara" { per_class * 3 } else { per_class };
            if *n < cap {
                *n += 1;
                class_words.push((cls.to_string(), w));
            }
        }
        words.extend(class_words.iter().map(|(_, w)| w.clone()));
    }
    // (the last wrapping is a literal colon after the word, typed as colon + back-tick)
    let wraps: Vec<(&str, &str)> = vec![("", ""), ("(", ")"), ("\"", "\""), ("'", "'"), ("", "."), ("", "?!"), ("", ":`")];
    let suffixes = ["er", "ke", "gulo", "ra", "te", "e", "r", "i", "o", "der", "ta", "ei"];
    // (english, smart, ansi)
    let cfgs: Vec<(bool, bool, bool)> = if thorough {
        vec![(false, true, false), (true, true, false), (true, false, false), (false, false, false), (false, true, true), (true, false, true)]
    } else {
        vec![(true, true, false), (false, false, false), (false, true, true)]
    };
    let interleave: Vec<Vec<(&str, usize)>> = vec![vec![], vec![("as", 1)], vec![("ke", 1), ("a", 2)]];

    let learn_recall = AtomicU64::new(0);
    let suffix_checks = AtomicU64::new(0);
    let preselected_commits = AtomicU64::new(0);
    let commits = AtomicU64::new(0);
    let events = AtomicU64::new(0);
    let new_ctx_loads = AtomicU64::new(0);

    par_for(
        words.len() * cfgs.len(),
        1,
        |w| scratch_xdg(&format!("c09-{}", w)),
        |xdg, idx| {
            let (english, smart, ansi) = cfgs[idx % cfgs.len()];
            let word = &words[idx / cfgs.len()];
            let mut o = Opts::phonetic(&real_db(), xdg);
            o.english = english;
            o.smart = smart;
            o.ansi = ansi;
            let mut ctx = Ctx::new(&o).expect("ctx");
            ctx.with_pre = false;
            let files = BTreeMap::new();
            let viol = |kind: &str, class: &str, evs: &[Ev], detail: String| {
                report.add(Violation::new("C09", kind, class).opts(&o).events(evs).feat("word", word.clone()).detail(detail));
            };
            for (wi, (l, t)) in wraps.iter().enumerate() {
                let text = format!("{}{}{}", l, word, t);
                // the list for this text on an empty store
                if histgraph::fresh(&mut ctx, &files).is_err() {
                    continue;
                }
                let mut e0 = vec![];
                let list0 = match type_text(&mut ctx, &text, &mut e0) {
                    Ok(Some(r)) => r,
                    Ok(None) => continue,
                    Err(f) => {
                        report.add(fail_violation("C09", &f, &o, &e0));
                        continue;
                    }
                };
                let n = list0.len();
                // R6: a backspace right before the commit. After the text has learned candidate i (preselected now), it is typed
                // again, the last character is removed, and the same index i - not the preselected one of the shorter text -
                // is committed there: the shorter text must recall it too (what the commit compares with is the list shown
                // last, not the one before the backspace). Also the other way round: committing the preselected candidate of
                // the shorter text learns nothing.
                if wi <= 1 && text.chars().count() >= 2 {
                    for i in 1..n {
                        if histgraph::fresh(&mut ctx, &files).is_err() {
                            continue;
                        }
                        let mut evs: Vec<Ev> = vec![];
                        let Ok(Some(_)) = type_text(&mut ctx, &text, &mut evs) else { continue };
                        evs.push(Ev::Commit(i));
                        if ctx.apply(&Ev::Commit(i)).is_err() {
                            continue;
                        }
                        let Ok(Some(shown)) = type_text(&mut ctx, &text, &mut evs) else { continue };
                        if shown.sel() != i {
                            continue; // (not recalled: reported by R1)
                        }
                        evs.push(Ev::Bs);
                        let rb = match ctx.apply(&Ev::Bs) {
                            Ok(Out::Sugg(r)) => r,
                            _ => continue,
                        };
                        let shorter: String = {
                            let mut cs: Vec<char> = text.chars().collect();
                            cs.pop();
                            cs.into_iter().collect()
                        };
                        if shorter.contains(':') || shorter.contains('`') || rb.len() == 0 {
                            continue;
                        }
                        let p2 = rb.sel();
                        let before = file_state(&o);
                        if p2 != i && i < rb.len() {
                            let chosen2 = rb.items()[i].clone();
                            evs.push(Ev::Commit(i));
                            commits.fetch_add(1, Ordering::Relaxed);
                            if let Err(f) = ctx.apply(&Ev::Commit(i)) {
                                report.add(fail_violation("C09", &f, &o, &evs));
                                continue;
                            }
                            learn_recall.fetch_add(1, Ordering::Relaxed);
                            let mut e1 = evs.clone();
                            if let Ok(Some(r)) = type_text(&mut ctx, &shorter, &mut e1) {
                                let got = r.items().get(r.sel()).cloned();
                                if got.as_ref() != Some(&chosen2) {
                                    viol("not-recalled", "not-recalled:commit-after-backspace", &e1, format!("{:?} typed, one backspace, candidate {:?} (index {}) of {:?} committed; re-typed: preselected {:?} in {:?}", text, chosen2, i, shorter, got, r.items()));
                                }
                            }
                        } else if p2 < rb.len() {
                            evs.push(Ev::Commit(p2));
                            preselected_commits.fetch_add(1, Ordering::Relaxed);
                            if ctx.apply(&Ev::Commit(p2)).is_err() {
                                continue;
                            }
                            let after = file_state(&o);
                            let canon = |b: &Option<Vec<u8>>| b.as_ref().and_then(|b| serde_json::from_slice::<BTreeMap<String, String>>(b).ok());
                            if canon(&before) != canon(&after) {
                                viol("preselected-commit-changed-store", "preselected-commit-changed-store:after-backspace", &evs, format!("store before {:?}, after {:?}", canon(&before), canon(&after)));
                            }
                        }
                        events.fetch_add(evs.len() as u64, Ordering::Relaxed);
                    }
                }
                // R7: a word that ENDS IN A COLON (the colon is part of the word for the splitter; the key of the store entry ends in
                // it). The colon key hands the caller's selection byte on, so the list of "word:" is read after a backspace: the
                // text, a colon and one more letter are typed and the letter removed. A non-preselected candidate is committed there
                // and must be recalled along the same route in the same context and in a new one over the written store.
                if wi == 0 && !text.contains(':') && !text.contains('`') {
                    let route = format!("{}:a", text);
                    let reach = |ctx: &mut Ctx, evs: &mut Vec<Ev>| -> Option<Rend> {
                        type_text(ctx, &route, evs).ok().flatten()?;
                        evs.push(Ev::Bs);
                        match ctx.apply(&Ev::Bs) {
                            Ok(Out::Sugg(r)) => Some(r),
                            _ => None,
                        }
                    };
                    if histgraph::fresh(&mut ctx, &files).is_ok() {
                        let mut evs: Vec<Ev> = vec![];
                        if let Some(rb) = reach(&mut ctx, &mut evs) {
                            if rb.len() > 1 {
                                let i = (rb.sel() + 1) % rb.len();
                                let chosen = rb.items()[i].clone();
                                evs.push(Ev::Commit(i));
                                commits.fetch_add(1, Ordering::Relaxed);
                                if ctx.apply(&Ev::Commit(i)).is_ok() {
                                    learn_recall.fetch_add(1, Ordering::Relaxed);
                                    let mut e1 = evs.clone();
                                    if let Some(r) = reach(&mut ctx, &mut e1) {
                                        let got = r.items().get(r.sel()).cloned();
                                        if got.as_ref() != Some(&chosen) {
                                            report.add(Violation::new("C09", "not-recalled", "not-recalled:same-context:word-ending-in-colon").opts(&o).events(&e1).feat("word", word.clone()).feat("route", "word-ending-in-colon").feat("chosen_kind", if chosen == format!("{}:", text) { "raw-text" } else { "other" }).detail(format!("committed {:?} (index {}) for {:?}; reached again in the same context: preselected {:?} in {:?}", chosen, i, format!("{}:", text), got, r.items())));
                                        }
                                    }
                                    let _ = ctx.apply(&Ev::Finish);
                                    let mut e2 = evs.clone();
                                    e2.push(Ev::Restart);
                                    new_ctx_loads.fetch_add(1, Ordering::Relaxed);
                                    if let Ok(mut c2) = Ctx::new(&o) {
                                        c2.with_pre = false;
                                        if let Some(r) = reach(&mut c2, &mut e2) {
                                            let got = r.items().get(r.sel()).cloned();
                                            if got.as_ref() != Some(&chosen) {
                                                report.add(Violation::new("C09", "not-recalled", "not-recalled:after-restart:word-ending-in-colon").opts(&o).events(&e2).feat("word", word.clone()).feat("route", "word-ending-in-colon").feat("chosen_kind", if chosen == format!("{}:", text) { "raw-text" } else { "other" }).detail(format!("committed {:?} (index {}) for {:?}; after a restart: preselected {:?} in {:?}", chosen, i, format!("{}:", text), got, r.items())));
                                            }
                                        }
                                    }
                                }
                            }
                        }
                    }
                }
                for i in 0..n {
                    for (ii, inter) in interleave.iter().enumerate() {
                        // other learning commits only for the bare form and the first wrapping (fixed sub-list)
                        if ii > 0 && wi > 1 {
                            continue;
                        }
                        if histgraph::fresh(&mut ctx, &files).is_err() {
                            continue;
                        }
                        let mut evs: Vec<Ev> = vec![];
                        let mut ok = true;
                        for (ow, oi) in inter {
                            if *ow == word.as_str() {
                                ok = false;
                                break;
                            }
                            match type_text(&mut ctx, ow, &mut evs) {
                                Ok(Some(r)) if r.len() > *oi => {
                                    evs.push(Ev::Commit(*oi));
                                    if ctx.apply(&Ev::Commit(*oi)).is_err() {
                                        ok = false;
                                    }
                                }
                                _ => ok = false,
                            }
                        }
                        if !ok {
                            continue;
                        }
                        let shown = match type_text(&mut ctx, &text, &mut evs) {
                            Ok(Some(r)) => r,
                            _ => continue,
                        };
                        if i >= shown.len() {
                            continue;
                        }
                        let presel = shown.sel();
                        let chosen = shown.items()[i].clone();
                        let before = file_state(&o);
                        evs.push(Ev::Commit(i));
                        commits.fetch_add(1, Ordering::Relaxed);
                        if let Err(f) = ctx.apply(&Ev::Commit(i)) {
                            report.add(fail_violation("C09", &f, &o, &evs));
                            continue;
                        }
                        events.fetch_add(evs.len() as u64, Ordering::Relaxed);
                        let after = file_state(&o);
                        // R4: the file is a JSON object of strings
                        if let Some(bytes) = &after {
                            match serde_json::from_slice::<BTreeMap<String, String>>(bytes) {
                                Ok(_) => {}
                                Err(e) => viol("store-not-an-object-of-strings", "store-not-an-object-of-strings", &evs, format!("after the commit the store is {:?}: {}", String::from_utf8_lossy(bytes), e)),
                            }
                        }
                        if i == presel {
                            // R3
                            preselected_commits.fetch_add(1, Ordering::Relaxed);
                            if before != after {
                                viol("preselected-commit-changed-store", "preselected-commit-changed-store", &evs, format!("store before {:?}, after {:?}", before.map(|b| String::from_utf8_lossy(&b).to_string()), after.map(|b| String::from_utf8_lossy(&b).to_string())));
                            }
                            continue;
                        }
                        // texts with ':' or a back-tick are outside the statement's "letters, optionally wrapped in punctuation"
                        learn_recall.fetch_add(1, Ordering::Relaxed);
                        let kind_of = if emoji.contains(chosen.trim_matches(|c: char| !c.is_alphanumeric() && !emoji.contains(&c.to_string())).trim()) || chosen.chars().any(|c| (c as u32) > 0x2000 && !"\u{2018}\u{2019}\u{201C}\u{201D}\u{200C}\u{200D}".contains(c)) {
                            "emoji"
                        } else if chosen == text {
                            "raw-literal"
                        } else {
                            "bengali"
                        };
                        // R1 same context
                        let mut e1 = evs.clone();
                        match type_text(&mut ctx, &text, &mut e1) {
                            Ok(Some(r)) => {
                                let got = r.items().get(r.sel()).cloned();
                                if got.as_ref() != Some(&chosen) {
                                    viol("not-recalled", &format!("not-recalled:same-context:{}:{}{}", kind_of, if l.is_empty() { "" } else { "lead" }, if t.is_empty() { "" } else { "trail" }), &e1, format!("committed {:?} (index {}, {}) for {:?}; re-typed: preselected {:?} in {:?}", chosen, i, kind_of, text, got, r.items()));
                                } else if i > 1 {
                                    samples.offer(|| json!({"typed": text, "committed": chosen, "index": i, "recalled_index": r.sel(), "flags": o.flags()}));
                                }
                            }
                            Ok(None) => {}
                            Err(f) => {
                                report.add(fail_violation("C09", &f, &o, &e1));
                            }
                        }
                        let _ = ctx.apply(&Ev::Finish);
                        // R1 after a restart (a true new context for i == 1, else the method re-created)
                        let mut e2 = evs.clone();
                        e2.push(Ev::Restart);
                        let recalled = if i == 1 || i == 2 {
                            new_ctx_loads.fetch_add(1, Ordering::Relaxed);
                            // (for i == 2 the new context starts life under the inverted options - candidate list off among them -,
                            // composes a word and is then re-configured by update-engine: a restart that reaches the options later)
                            let mut o_new = o.clone();
                            o_new.via_update = i == 2;
                            match Ctx::new(&o_new) {
                                Ok(mut c2) => {
                                    c2.with_pre = false;
                                    type_text(&mut c2, &text, &mut e2).ok().flatten()
                                }
                                Err(p) => {
                                    viol("new-context-cannot-load-store", "new-context-cannot-load-store", &e2, format!("a new context over the written store panicked: {}", p.short()));
                                    None
                                }
                            }
                        } else {
                            match ctx.reset() {
                                Ok(()) => type_text(&mut ctx, &text, &mut e2).ok().flatten(),
                                Err(p) => {
                                    viol("new-context-cannot-load-store", "new-context-cannot-load-store", &e2, format!("re-creating the method over the written store panicked: {}", p.short()));
                                    None
                                }
                            }
                        };
                        if let Some(r) = recalled {
                            let got = r.items().get(r.sel()).cloned();
                            if got.as_ref() != Some(&chosen) {
                                viol("not-recalled", &format!("not-recalled:after-restart:{}:{}{}", kind_of, if l.is_empty() { "" } else { "lead" }, if t.is_empty() { "" } else { "trail" }), &e2, format!("committed {:?} (index {}, {}) for {:?}; after a restart: preselected {:?} in {:?}", chosen, i, kind_of, text, got, r.items()));
                            }
                        }
                        let _ = ctx.apply(&Ev::Finish);
                        // R2 suffix clause (Bengali choices of the bare and first two wrappings)
                        if kind_of == "bengali" && wi <= 2 && ii == 0 {
                            let (sp, _sw, st) = split_ref(&text, false);
                            let (lead, trail) = {
                                let (a, b) = (avro.tr(&sp), avro.tr(&st));
                                if smart {
                                    (a.replace('\'', "\u{2018}").replace('"', "\u{201C}"), b.replace('\'', "\u{2019}").replace('"', "\u{201D}"))
                                } else {
                                    (a, b)
                                }
                            };
                            if chosen.len() >= lead.len() + trail.len() && chosen.starts_with(&lead) && chosen.ends_with(&trail) {
                                let inner = &chosen[lead.len()..chosen.len() - trail.len()];
                                for s in suffixes {
                                    let Some(sbn) = dict.suffix.get(s) else { continue };
                                    let t2 = format!("{}{}{}{}", l, word, s, t);
                                    // the suffixed word must have no entry of its own: read the in-memory map
                                    let snap = ctx.snapshot_json(1);
                                    if snap["selections"].get(format!("{}{}", word, s)).is_some() {
                                        continue;
                                    }
                                    let mut e3 = evs.clone();
                                    let r = match type_text(&mut ctx, &t2, &mut e3) {
                                        Ok(Some(r)) => r,
                                        _ => continue,
                                    };
                                    let _ = ctx.apply(&Ev::Finish);
                                    let joined = format!("{}{}{}", lead, join(inner, sbn), trail);
                                    if r.items().contains(&joined) {
                                        suffix_checks.fetch_add(1, Ordering::Relaxed);
                                        let got = r.items().get(r.sel()).cloned();
                                        if got.as_ref() != Some(&joined) {
                                            viol("suffix-form-not-preselected", "suffix-form-not-preselected", &e3, format!("learned {:?} for {:?}; typed {:?}: joined form {:?} is offered but {:?} is preselected in {:?}", chosen, text, t2, joined, got, r.items()));
                                        }
                                    }
                                }
                                // R2b: the suffixed word was typed BEFORE its base was learned (and nothing was chosen for
                                // it then): it has no learned choice of its own, so the joined form must be preselected
                                if wi == 0 {
                                    for s in suffixes.iter().take(4) {
                                        let Some(sbn) = dict.suffix.get(*s) else { continue };
                                        let t2 = format!("{}{}", word, s);
                                        if histgraph::fresh(&mut ctx, &files).is_err() {
                                            continue;
                                        }
                                        let mut e4: Vec<Ev> = vec![];
                                        let pre = match type_text(&mut ctx, &t2, &mut e4) {
                                            Ok(Some(r)) => r,
                                            _ => continue,
                                        };
                                        let c0 = Ev::Commit(pre.sel().min(pre.len().saturating_sub(1)));
                                        e4.push(c0.clone());
                                        let _ = ctx.apply(&c0);
                                        let sh = match type_text(&mut ctx, &text, &mut e4) {
                                            Ok(Some(r)) => r,
                                            _ => continue,
                                        };
                                        if sh.items().get(i) != Some(&chosen) || sh.sel() == i {
                                            continue;
                                        }
                                        e4.push(Ev::Commit(i));
                                        let _ = ctx.apply(&Ev::Commit(i));
                                        let r = match type_text(&mut ctx, &t2, &mut e4) {
                                            Ok(Some(r)) => r,
                                            _ => continue,
                                        };
                                        let _ = ctx.apply(&Ev::Finish);
                                        let joined = join(inner, sbn);
                                        if r.items().contains(&joined) {
                                            suffix_checks.fetch_add(1, Ordering::Relaxed);
                                            let got = r.items().get(r.sel()).cloned();
                                            if got.as_ref() != Some(&joined) {
                                                viol("suffix-form-not-preselected", "suffix-form-not-preselected:typed-before-base-was-learned", &e4, format!("{:?} was typed (nothing chosen) before {:?} was learned for {:?}; typed again: joined form {:?} is offered but {:?} is preselected in {:?}", t2, chosen, text, joined, got, r.items()));
                                            }
                                        }
                                    }
                                }
                            }
                        }
                        // R5: re-learning — a second, different choice for the same short bare word replaces the first, in the
                        // same context and on disk (the store may shrink)
                        if wi == 0 && ii == 0 && word.len() <= 2 {
                            for j in 0..n {
                                if j == i {
                                    continue;
                                }
                                if histgraph::fresh(&mut ctx, &files).is_err() {
                                    continue;
                                }
                                let mut e5: Vec<Ev> = vec![];
                                let s1 = match type_text(&mut ctx, &text, &mut e5) {
                                    Ok(Some(r)) => r,
                                    _ => continue,
                                };
                                if i >= s1.len() || s1.sel() == i {
                                    continue;
                                }
                                e5.push(Ev::Commit(i));
                                let _ = ctx.apply(&Ev::Commit(i));
                                let s2 = match type_text(&mut ctx, &text, &mut e5) {
                                    Ok(Some(r)) => r,
                                    _ => continue,
                                };
                                if j >= s2.len() || s2.sel() == j {
                                    let _ = ctx.apply(&Ev::Finish);
                                    continue;
                                }
                                let second = s2.items()[j].clone();
                                e5.push(Ev::Commit(j));
                                commits.fetch_add(1, Ordering::Relaxed);
                                let _ = ctx.apply(&Ev::Commit(j));
                                if let Some(bytes) = file_state(&o) {
                                    if let Err(e) = serde_json::from_slice::<BTreeMap<String, String>>(&bytes) {
                                        viol("store-not-an-object-of-strings", "store-not-an-object-of-strings:after-relearning", &e5, format!("after re-learning the store is {:?}: {}", String::from_utf8_lossy(&bytes), e));
                                    }
                                }
                                learn_recall.fetch_add(1, Ordering::Relaxed);
                                let mut e6 = e5.clone();
                                if let Ok(Some(r)) = type_text(&mut ctx, &text, &mut e6) {
                                    if r.items().get(r.sel()) != Some(&second) {
                                        viol("not-recalled", "not-recalled:same-context:relearned", &e6, format!("first {:?}, then {:?} committed for {:?}; re-typed: preselected {:?}", chosen, second, text, r.items().get(r.sel())));
                                    }
                                }
                                let _ = ctx.apply(&Ev::Finish);
                                let mut e7 = e5.clone();
                                e7.push(Ev::Restart);
                                if ctx.reset().is_ok() {
                                    if let Ok(Some(r)) = type_text(&mut ctx, &text, &mut e7) {
                                        if r.items().get(r.sel()) != Some(&second) {
                                            viol("not-recalled", "not-recalled:after-restart:relearned", &e7, format!("first {:?}, then {:?} committed for {:?}; after a restart: preselected {:?} (store: {:?})", chosen, second, text, r.items().get(r.sel()), file_state(&o).map(|b| String::from_utf8_lossy(&b).to_string())));
                                        }
                                    }
                                    let _ = ctx.apply(&Ev::Finish);
                                }
                            }
                        }
                    }
                }
            }
        },
        |_| (),
    );

    let mut ev = Evidence::new("C09", &report.tier, "model_checking");
    ev.set("states", commits.load(Ordering::Relaxed).max(1));
    ev.set("transitions", events.load(Ordering::Relaxed).max(1));
    ev.set("traces_validated_against_impl", learn_recall.load(Ordering::Relaxed) * 2 + suffix_checks.load(Ordering::Relaxed) + preselected_commits.load(Ordering::Relaxed));
    ev.set("learn_recall_pairs", learn_recall.load(Ordering::Relaxed));
    ev.set("suffix_clause_checks", suffix_checks.load(Ordering::Relaxed));
    ev.set("preselected_commits_checked", preselected_commits.load(Ordering::Relaxed));
    ev.set("true_new_contexts_created_over_written_stores", new_ctx_loads.load(Ordering::Relaxed));
    ev.set("words", words.len());
    ev.set("data_guided_words_by_final_character_class", json!(class_words.iter().map(|(c, w)| format!("{}:{}", c, w)).collect::<Vec<_>>()));
    ev.set("wrappings", json!(wraps.iter().map(|(l, t)| format!("{}w{}", l, t)).collect::<Vec<_>>()));
    ev.set("configurations", cfgs.len());
    ev.set("interleaved_learning_prefixes", interleave.len());
    ev.set("samples", samples.take());
    ev.set("exhaustive", true);
    ev.set("explanation", "states = commits performed (every candidate index of every enumerated text from an empty store, optionally after other learning commits); each non-preselected commit is followed by a re-typing in the same context and after a restart, and by the suffix clause");
    ev.assume("texts containing ':' or a back-tick are outside 'a typed word (letters, optionally wrapped in punctuation)'");
    ev.assume("'no learned choice of its own' is read off the in-memory map through the snapshot hook (the engine memoises derived suffix choices into the same map)");
    ev
}
