//! C10 — damaged or missing user files never stop the keyboard from working (fault enumeration).
//!
//! Fault space, enumerated completely:
//!  * selection store: every store of <= 2 (thorough 3) entries from a pool, in EVERY key order,
//!    serialised in the engine's own format (compact serde_json; the run asserts that the files
//!    the engine really writes are byte-equal to this format) and cut at EVERY byte prefix
//!    (the crash points of the non-atomic save);
//!  * a corpus of malformed / wrong-shape documents for both user files, every byte prefix of a
//!    valid user auto-correct file;
//!  * directory states: user directory missing, user directory is a regular file, a user file's
//!    path is a directory.
//! After each fault a context is created with `new_with_config` and every session of <= 2 (thorough 3)
//! macro steps over {type a word and commit a non-preselected candidate | type and finish |
//! update-engine} is run. Oracle: nothing panics; when the document is not a JSON object of
//! strings every rendering equals the rendering with the file absent; after a failed save the
//! choice still works for the rest of the session.

use crate::drv::{fixture, scratch_xdg, Ctx, Ev, Fail, Opts, Out, Rend};
use crate::par::par_for;
use crate::props::c01::fail_violation;
use crate::report::{Evidence, Report, Samples, Violation};
use serde_json::json;
use std::collections::{BTreeMap, HashMap};
use std::sync::atomic::{AtomicU64, Ordering};
use std::sync::Mutex;

#[derive(Clone, Debug)]
enum Fault {
    /// bytes for the selection store (None = absent) and for the user auto-correct file
    Files { sel: Option<Vec<u8>>, ac: Option<Vec<u8>>, label: String },
    DirMissing,
    DirIsFile,
    SelPathIsDir,
    AcPathIsDir,
}

impl Fault {
    fn label(&self) -> String {
        match self {
            Fault::Files { label, .. } => label.clone(),
            Fault::DirMissing => "user directory missing".into(),
            Fault::DirIsFile => "user directory is a regular file".into(),
            Fault::SelPathIsDir => "selection store path is a directory".into(),
            Fault::AcPathIsDir => "user auto-correct path is a directory".into(),
        }
    }
    fn install(&self, o: &Opts) {
        let d = o.user_dir();
        let _ = std::fs::remove_dir_all(&d);
        let _ = std::fs::remove_file(&d);
        match self {
            Fault::Files { sel, ac, .. } => {
                std::fs::create_dir_all(&d).unwrap();
                if let Some(b) = sel {
                    std::fs::write(o.selection_file(), b).unwrap();
                }
                if let Some(b) = ac {
                    std::fs::write(o.user_autocorrect_file(), b).unwrap();
                }
            }
            Fault::DirMissing => {}
            Fault::DirIsFile => std::fs::write(&d, b"not a directory").unwrap(),
            Fault::SelPathIsDir => std::fs::create_dir_all(o.selection_file()).unwrap(),
            Fault::AcPathIsDir => std::fs::create_dir_all(o.user_autocorrect_file()).unwrap(),
        }
    }
    /// is the content treated as "absent" by the statement (not a JSON object of strings)?
    fn unreadable(&self) -> (bool, bool) {
        let bad = |b: &Option<Vec<u8>>| match b {
            None => false,
            Some(b) => serde_json::from_slice::<BTreeMap<String, String>>(b).is_err(),
        };
        match self {
            Fault::Files { sel, ac, .. } => (bad(sel), bad(ac)),
            Fault::DirMissing | Fault::DirIsFile => (true, true),
            Fault::SelPathIsDir => (true, false),
            Fault::AcPathIsDir => (false, true),
        }
    }
    fn files_json(&self) -> BTreeMap<String, String> {
        let mut m = BTreeMap::new();
        if let Fault::Files { sel, ac, .. } = self {
            if let Some(b) = sel {
                m.insert("phonetic-candidate-selection.json".to_string(), String::from_utf8_lossy(b).to_string());
            }
            if let Some(b) = ac {
                m.insert("autocorrect.json".to_string(), String::from_utf8_lossy(b).to_string());
            }
        }
        m
    }
}

#[derive(Clone, Copy, Debug, PartialEq)]
enum Step {
    /// type word k and commit a non-preselected candidate
    Learn(usize),
    /// type word k and finish
    Type(usize),
    Update,
}

/// (the last three are only typed in the live-fault part: variants of the words the user's auto-correct file has entries for -
/// other letter case, wrapped in punctuation, suffixed - whose lists may depend on those entries in less direct ways)
const WORDS: [&str; 6] = ["as", ":er", "aser", "As", "(as)", "Aser."];

struct Run {
    rends: Vec<Rend>,
    /// (word index, committed text) of Learn steps
    learned: Vec<(usize, String)>,
}

fn run_session(ctx: &mut Ctx, sess: &[Step]) -> Result<Run, (Vec<Ev>, Fail)> {
    let mut evs = vec![];
    let mut rends = vec![];
    let mut learned = vec![];
    for st in sess {
        match st {
            Step::Learn(k) | Step::Type(k) => {
                let mut shown: Option<Rend> = None;
                for c in WORDS[*k].chars() {
                    let sel = shown.as_ref().map(|r| r.sel().min(255) as u8).unwrap_or(0);
                    let ev = Ev::Key { code: crate::keys::code_for_char(c).unwrap(), m: 0, sel };
                    evs.push(ev.clone());
                    match ctx.apply(&ev) {
                        Ok(Out::Sugg(r)) => {
                            rends.push(r.clone());
                            shown = Some(r);
                        }
                        Ok(_) => {}
                        Err(f) => return Err((evs, f)),
                    }
                }
                let ev = if let Step::Learn(_) = st {
                    let r = shown.as_ref();
                    let n = r.map(|r| r.len()).unwrap_or(0);
                    let pre = r.map(|r| r.sel()).unwrap_or(0);
                    // a candidate other than the preselected one (when there is one)
                    let i = if n > 1 { if pre == 1 { 0 } else { 1 } } else { 0 };
                    if n > 1 {
                        learned.push((*k, r.unwrap().items()[i].clone()));
                    }
                    Ev::Commit(i)
                } else {
                    Ev::Finish
                };
                evs.push(ev.clone());
                if let Err(f) = ctx.apply(&ev) {
                    return Err((evs, f));
                }
            }
            Step::Update => {
                let ev = Ev::Update(Box::new(ctx.opts.clone()));
                evs.push(ev.clone());
                if let Err(f) = ctx.apply(&ev) {
                    return Err((evs, f));
                }
            }
        }
    }
    Ok(Run { rends, learned })
}

fn permutations(n: usize) -> Vec<Vec<usize>> {
    if n == 0 {
        return vec![vec![]];
    }
    let mut out = vec![];
    for p in permutations(n - 1) {
        for i in 0..=p.len() {
            let mut q = p.clone();
            q.insert(i, n - 1);
            out.push(q);
        }
    }
    out
}

/// the engine's serialisation of a store with the given key order
fn engine_format(entries: &[(&str, &str)]) -> String {
    let mut s = String::from("{");
    for (i, (k, v)) in entries.iter().enumerate() {
        if i > 0 {
            s.push(',');
        }
        s.push_str(&serde_json::to_string(k).unwrap());
        s.push(':');
        s.push_str(&serde_json::to_string(v).unwrap());
    }
    s.push('}');
    s
}

pub fn run(report: &Report, thorough: bool) -> Evidence {
    let tiny = fixture("tiny_db");
    let samples = Samples::new(8);
    // ---- the fault list ----
    // (the last entry is a raw English choice - value == key - as the engine writes it when the typed text itself is chosen
    // with the English option on; it is read back here under configurations with that option off as well)
    let pool: Vec<(&str, &str)> = vec![("as", "\u{0986}\u{09B6}"), ("a", "\u{09BE}"), (":", ""), ("ser", "\u{09B8}\u{09C7}\u{09B0}"), ("as", "as")];
    let max_entries = if thorough { 3 } else { 2 };
    let mut stores: Vec<String> = vec![];
    for mask in 1u32..(1 << pool.len()) {
        let idxs: Vec<usize> = (0..pool.len()).filter(|i| mask & (1 << i) != 0).collect();
        if idxs.len() > max_entries || (mask & 1 != 0 && mask & 16 != 0) {
            continue; // (entries 0 and 4 have the same key)
        }
        for p in permutations(idxs.len()) {
            let entries: Vec<(&str, &str)> = p.iter().map(|&j| pool[idxs[j]]).collect();
            stores.push(engine_format(&entries));
        }
    }
    let mut faults: Vec<Fault> = vec![];
    let mut prefix_faults = 0usize;
    for s in &stores {
        let b = s.as_bytes();
        for n in 0..=b.len() {
            faults.push(Fault::Files { sel: Some(b[..n].to_vec()), ac: None, label: format!("store {:?} cut at byte {}/{}", s, n, b.len()) });
            prefix_faults += 1;
        }
    }
    let corpus: Vec<(&str, Vec<u8>)> = vec![
        ("empty", vec![]),
        ("whitespace", b" \n\t ".to_vec()),
        ("null", b"null".to_vec()),
        ("array", b"[]".to_vec()),
        ("number value", br#"{"a":1}"#.to_vec()),
        ("null value", br#"{"a":null}"#.to_vec()),
        ("empty string value", br#"{"as":"","a":""}"#.to_vec()),
        ("empty key", br#"{"":"x"}"#.to_vec()),
        // values that are not empty but transliterate to nothing (the back-tick is Avro's separator): an empty candidate all the same
        ("value that transliterates to nothing", br#"{"as":"`","a":"``","aser":"`"}"#.to_vec()),
        ("nested object", br#"{"a":{"b":"c"}}"#.to_vec()),
        ("trailing garbage", br#"{"a":"b"}xyz"#.to_vec()),
        ("invalid utf-8", vec![b'{', b'"', 0xff, 0xfe, b'"', b':', b'"', b'a', b'"', b'}']),
        ("byte order mark", [vec![0xEF, 0xBB, 0xBF], br#"{"a":"b"}"#.to_vec()].concat()),
        ("1 MB of [", vec![b'['; 1 << 20]),
        ("string", br#""abc""#.to_vec()),
        ("duplicate keys", br#"{"as":"x","as":"y"}"#.to_vec()),
    ];
    for (name, bytes) in &corpus {
        faults.push(Fault::Files { sel: Some(bytes.clone()), ac: None, label: format!("selection store: {}", name) });
        faults.push(Fault::Files { sel: None, ac: Some(bytes.clone()), label: format!("user auto-correct: {}", name) });
    }
    let valid_ac = r#"{"as":"ash","aser":"asOr","zz":"jhal"}"#;
    for n in 0..=valid_ac.len() {
        faults.push(Fault::Files { sel: None, ac: Some(valid_ac.as_bytes()[..n].to_vec()), label: format!("user auto-correct {:?} cut at byte {}/{}", valid_ac, n, valid_ac.len()) });
    }
    faults.push(Fault::Files { sel: Some(br#"{"as":""}"#.to_vec()), ac: Some(br#"{"as":""}"#.to_vec()), label: "both files with empty string entries".into() });
    faults.push(Fault::Files { sel: Some(br#"{"as":"`"}"#.to_vec()), ac: Some(br#"{"as":"`"}"#.to_vec()), label: "both files with entries that transliterate to nothing".into() });
    // an empty auto-correct value (an empty candidate) together with a learned choice for the same word, for
    // every candidate the word has on the tiny database
    for (w, cands) in [("as", ["\u{0986}\u{09B8}", "\u{0986}\u{09B6}", "\u{098F}\u{09B8}", "\u{0986}\u{0981}\u{09B6}"])] {
        for c in cands {
            faults.push(Fault::Files { sel: Some(format!("{{\"{}\":\"{}\"}}", w, c).into_bytes()), ac: Some(format!("{{\"{}\":\"\"}}", w).into_bytes()), label: format!("auto-correct {{\"{}\":\"\"}} and store {{\"{}\":\"{}\"}}", w, w, c) });
            faults.push(Fault::Files { sel: Some(format!("{{\"{}\":\"{}\"}}", w, c).into_bytes()), ac: Some(format!("{{\"{}\":\"`\"}}", w).into_bytes()), label: format!("auto-correct {{\"{}\":\"`\"}} and store {{\"{}\":\"{}\"}}", w, w, c) });
        }
    }
    faults.extend([Fault::DirMissing, Fault::DirIsFile, Fault::SelPathIsDir, Fault::AcPathIsDir]);

    // ---- sessions ----
    let steps: Vec<Step> = vec![Step::Learn(0), Step::Learn(1), Step::Learn(2), Step::Type(0), Step::Type(1), Step::Type(2), Step::Update];
    let depth = if thorough { 3 } else { 2 };
    let mut sessions: Vec<Vec<Step>> = vec![vec![]];
    let mut i = 0;
    while i < sessions.len() {
        if sessions[i].len() < depth {
            for s in &steps {
                let mut v = sessions[i].clone();
                v.push(*s);
                sessions.push(v);
            }
        }
        i += 1;
    }
    let sessions: Vec<Vec<Step>> = sessions.into_iter().filter(|s| !s.is_empty()).collect();

    let cfgs: Vec<(bool, bool)> = vec![(true, true), (false, false)]; // (english, smart)
    let runs = AtomicU64::new(0);
    let compared = AtomicU64::new(0);
    let in_memory_checks = AtomicU64::new(0);
    let creations = AtomicU64::new(0);
    let written_formats: Mutex<HashMap<String, u64>> = Mutex::new(HashMap::new());
    let format_mismatch = AtomicU64::new(0);

    // reference renderings with both files absent, per (cfg, session)
    let reference: Mutex<HashMap<(usize, usize), Vec<Rend>>> = Mutex::new(HashMap::new());
    par_for(
        cfgs.len() * sessions.len(),
        16,
        |w| scratch_xdg(&format!("c10r-{}", w)),
        |xdg, idx| {
            let (ci, si) = (idx % cfgs.len(), idx / cfgs.len());
            let mut o = Opts::phonetic(&tiny, xdg);
            o.english = cfgs[ci].0;
            o.smart = cfgs[ci].1;
            Fault::Files { sel: None, ac: None, label: String::new() }.install(&o);
            if let Ok(mut ctx) = Ctx::new(&o) {
                ctx.with_pre = false;
                if let Ok(r) = run_session(&mut ctx, &sessions[si]) {
                    reference.lock().unwrap().insert((ci, si), r.rends);
                    // conformance link: what the engine wrote is one of the key orders of the engine format
                    if let Ok(bytes) = std::fs::read(o.selection_file()) {
                        let text = String::from_utf8_lossy(&bytes).to_string();
                        let ok = match serde_json::from_slice::<BTreeMap<String, String>>(&bytes) {
                            Ok(m) => {
                                let ents: Vec<(&str, &str)> = m.iter().map(|(k, v)| (k.as_str(), v.as_str())).collect();
                                permutations(ents.len()).iter().any(|p| engine_format(&p.iter().map(|&j| ents[j]).collect::<Vec<_>>()) == text)
                            }
                            Err(_) => false,
                        };
                        if !ok {
                            format_mismatch.fetch_add(1, Ordering::Relaxed);
                        }
                        *written_formats.lock().unwrap().entry(text).or_default() += 1;
                    }
                }
            }
        },
        |_| (),
    );
    let reference = reference.into_inner().unwrap();

    par_for(
        faults.len() * cfgs.len(),
        1,
        |w| scratch_xdg(&format!("c10-{}", w)),
        |xdg, idx| {
            let (ci, fi) = (idx % cfgs.len(), idx / cfgs.len());
            let fault = &faults[fi];
            let mut o = Opts::phonetic(&tiny, xdg);
            o.english = cfgs[ci].0;
            o.smart = cfgs[ci].1;
            let (sel_bad, ac_bad) = fault.unreadable();
            let treat_absent = match fault {
                Fault::Files { sel, ac, .. } => (sel.is_none() || sel_bad) && (ac.is_none() || ac_bad),
                _ => true,
            };
            let dir_fault = !matches!(fault, Fault::Files { .. });
            for (si, sess) in sessions.iter().enumerate() {
                fault.install(&o);
                runs.fetch_add(1, Ordering::Relaxed);
                let mk = |kind: &str, class: String, evs: &[Ev], detail: String| {
                    let mut v = Violation::new("C10", kind, &class).opts(&o).events(evs).feat("fault", fault.label()).detail(format!("fault: {}; {}", fault.label(), detail));
                    for (k, c) in fault.files_json() {
                        v = v.file(&k, &c);
                    }
                    report.add(v);
                };
                creations.fetch_add(1, Ordering::Relaxed);
                let mut ctx = match Ctx::new(&o) {
                    Ok(c) => c,
                    Err(p) => {
                        mk("panic-at-creation", format!("panic-at-creation:{}", p.file), &[], format!("new_with_config panicked: {} ({}:{})", p.msg, p.file, p.line));
                        break; // same for every session
                    }
                };
                ctx.with_pre = false;
                match run_session(&mut ctx, sess) {
                    Err((evs, f)) => {
                        let mut v = fail_violation("C10", &f, &o, &evs).feat("fault", fault.label());
                        v.detail = format!("fault: {}; {}", fault.label(), v.detail);
                        v.class = format!("{}:{}", v.class, if dir_fault { "directory" } else { "file-content" });
                        for (k, c) in fault.files_json() {
                            v = v.file(&k, &c);
                        }
                        report.add(v);
                    }
                    Ok(run) => {
                        // whatever is in the files, every returned list stays self-consistent
                        for r in &run.rends {
                            if let Rend::Full { items, sel, .. } = r {
                                if items.is_empty() || *sel >= items.len() {
                                    mk("inconsistent-suggestion", "inconsistent-suggestion".into(), &[], format!("session {:?}: a list of {} candidates with previously selected index {}: {:?}", sess, items.len(), sel, items));
                                    break;
                                }
                            }
                        }
                        if treat_absent && !dir_fault {
                            compared.fetch_add(1, Ordering::Relaxed);
                            if let Some(r) = reference.get(&(ci, si)) {
                                if *r != run.rends {
                                    let k = r.iter().zip(run.rends.iter()).position(|(a, b)| a != b).unwrap_or(0);
                                    mk("not-treated-as-absent", "not-treated-as-absent".into(), &[], format!("session {:?}: rendering {} is {} but {} with the file absent", sess, k, run.rends.get(k).map(|x| x.to_json()).unwrap_or_default(), r.get(k).map(|x| x.to_json()).unwrap_or_default()));
                                }
                            }
                        }
                        if dir_fault && !run.learned.is_empty() {
                            // the save failed (or not): the choice must still work in this session
                            let (k, chosen) = run.learned.last().unwrap().clone();
                            let mut evs = vec![];
                            let mut shown = None;
                            let mut failed = false;
                            for c in WORDS[k].chars() {
                                let sel = shown.as_ref().map(|r: &Rend| r.sel().min(255) as u8).unwrap_or(0);
                                let ev = Ev::Key { code: crate::keys::code_for_char(c).unwrap(), m: 0, sel };
                                evs.push(ev.clone());
                                match ctx.apply(&ev) {
                                    Ok(Out::Sugg(r)) => shown = Some(r),
                                    Ok(_) => {}
                                    Err(f) => {
                                        report.add(fail_violation("C10", &f, &o, &evs).feat("fault", fault.label()));
                                        failed = true;
                                        break;
                                    }
                                }
                            }
                            if !failed {
                                in_memory_checks.fetch_add(1, Ordering::Relaxed);
                                if let Some(r) = shown {
                                    if r.items().get(r.sel()) != Some(&chosen) {
                                        mk("choice-lost-in-session", "choice-lost-in-session".into(), &evs, format!("session {:?}: committed {:?} for {:?}, re-typed in the same session: preselected {:?} of {:?}", sess, chosen, WORDS[k], r.items().get(r.sel()), r.items()));
                                    }
                                }
                            }
                        }
                        if si == 7 {
                            samples.offer(|| json!({"fault": fault.label(), "session": format!("{:?}", sess), "renderings": run.rends.len()}));
                        }
                    }
                }
            }
        },
        |_| (),
    );

    // ---- faults that arrive while the context lives: the user auto-correct file changes state between
    // update-engine calls (every sequence of <= 3 states over {absent, valid A, valid B, empty, truncated,
    // wrong shape}); after each sequence every word must render as in a context newly created over the
    // final file (which, for unreadable content, renders as with the file absent — checked above)
    let live_faults = AtomicU64::new(0);
    {
        let states: Vec<Option<&[u8]>> = vec![None, Some(br#"{"as":"ash"}"#), Some(br#"{"as":"asOr","aser":"eser"}"#), Some(b""), Some(br#"{"as":"a"#), Some(b"[1,2]"), Some(br#"{"as":"","aser":"`"}"#)];
        let mut seqs: Vec<Vec<usize>> = vec![];
        for a in 0..states.len() {
            seqs.push(vec![a]);
            for b in 0..states.len() {
                seqs.push(vec![a, b]);
                // (sequences of three over the first six states; the state added last takes part in the shorter ones)
                for c in 0..6.min(states.len()) {
                    if a < 6 && b < 6 {
                        seqs.push(vec![a, b, c]);
                    }
                }
            }
        }
        par_for(
            seqs.len() * cfgs.len(),
            4,
            |w| scratch_xdg(&format!("c10l-{}", w)),
            |xdg, idx| {
                let (ci, si) = (idx % cfgs.len(), idx / cfgs.len());
                let mut o = Opts::phonetic(&tiny, xdg);
                o.english = cfgs[ci].0;
                o.smart = cfgs[ci].1;
                // every initial state of the file as well
                for init in 0..states.len() {
                    live_faults.fetch_add(1, Ordering::Relaxed);
                    let set = |k: usize, tick: u64| {
                        let p = o.user_autocorrect_file();
                        match states[k] {
                            None => {
                                let _ = std::fs::remove_file(&p);
                            }
                            Some(b) => {
                                std::fs::write(&p, b).unwrap();
                                let f = std::fs::File::options().write(true).open(&p).unwrap();
                                f.set_modified(std::time::SystemTime::UNIX_EPOCH + std::time::Duration::from_secs(1_700_000_000 + tick * 10)).unwrap();
                            }
                        }
                    };
                    Fault::Files { sel: None, ac: None, label: String::new() }.install(&o);
                    set(init, 0);
                    let mut evs: Vec<Ev> = vec![];
                    let mut o_create = o.clone();
                    o_create.psugg = init % 2 == 0;
                    let mut live = match Ctx::new(&o_create) {
                        Ok(c) => c,
                        Err(p) => {
                            report.add(Violation::new("C10", "panic-at-creation", "panic-at-creation:live").opts(&o).detail(p.short()));
                            continue;
                        }
                    };
                    live.with_pre = false;
                    let mut failed = false;
                    for (t, &k) in seqs[si].iter().enumerate() {
                        set(k, t as u64 + 1);
                        // (the context of this run was created with suggestions off when `init` is odd: the first
                        // update-engine call switches them on)
                        // (the update-engine calls in between alternate the candidate-list option: a re-load that happens while the
                        // list is off must not be lost when it is switched on again)
                        let mut o_mid = o.clone();
                        o_mid.psugg = (t + init) % 2 == 1;
                        let up = Ev::Update(Box::new(o_mid));
                        evs.push(up.clone());
                        if let Err(f) = live.apply(&up) {
                            report.add(fail_violation("C10", &f, &o, &evs).feat("fault", format!("auto-correct file states {:?} then {:?}", init, seqs[si])));
                            failed = true;
                            break;
                        }
                        // the words (and their variants) are typed under every intermediate state of the file as well, so that
                        // whatever the context memoises about them meets the next state of the file
                        if let Err((e, f)) = run_session(&mut live, &[Step::Type(0), Step::Type(2), Step::Type(3), Step::Type(4), Step::Type(5)]) {
                            evs.extend(e);
                            report.add(fail_violation("C10", &f, &o, &evs).feat("fault", "live auto-correct file changes".to_string()));
                            failed = true;
                            break;
                        }
                    }
                    if failed {
                        continue;
                    }
                    let words = [Step::Type(0), Step::Type(2), Step::Type(3), Step::Type(4), Step::Type(5)];
                    let mut fresh = match Ctx::new(&o) {
                        Ok(c) => c,
                        Err(p) => {
                            report.add(Violation::new("C10", "panic-at-creation", "panic-at-creation:live").opts(&o).detail(p.short()));
                            continue;
                        }
                    };
                    fresh.with_pre = false;
                    let exp = run_session(&mut fresh, &words);
                    let describe = |k: usize| states[k].map(|b| String::from_utf8_lossy(b).to_string()).unwrap_or("<absent>".into());
                    let mut compare = |live: &mut Ctx, evs: &[Ev], when: &str| {
                        let got = run_session(live, &words);
                        match (&got, &exp) {
                            (Ok(g), Ok(x)) => {
                                if g.rends != x.rends {
                                    report.add(
                                        Violation::new("C10", "damaged-file-not-treated-as-absent-after-reload", "live-fault:reload")
                                            .opts(&o)
                                            .events(evs)
                                            .feat("fault", format!("auto-correct file: {} at creation, then {:?}", describe(init), seqs[si].iter().map(|&k| describe(k)).collect::<Vec<_>>()))
                                            .detail(format!("user auto-correct file {} at creation, then (each followed by update-engine) {:?}; {}: typing renders {:?} but a new context over the final file renders {:?}", describe(init), seqs[si].iter().map(|&k| describe(k)).collect::<Vec<_>>(), when, g.rends.iter().map(|r| r.to_json()).collect::<Vec<_>>(), x.rends.iter().map(|r| r.to_json()).collect::<Vec<_>>())),
                                    );
                                }
                            }
                            (Err((e, f)), _) | (_, Err((e, f))) => {
                                report.add(fail_violation("C10", f, &o, e).feat("fault", "live auto-correct file changes".to_string()));
                            }
                        }
                    };
                    // (i) right after the last of the alternating update-engine calls, when that one switched to the configuration under
                    // test (whatever a skipped re-load leaves behind must show before anything heals it)
                    let last_mid_is_target = seqs[si].is_empty() || (seqs[si].len() - 1 + init) % 2 == 1;
                    if last_mid_is_target {
                        compare(&mut live, &evs, "after the last update-engine");
                    }
                    // (ii) after one more update-engine to the configuration under test, the file untouched since the previous one
                    {
                        let up = Ev::Update(Box::new(o.clone()));
                        evs.push(up.clone());
                        if let Err(f) = live.apply(&up) {
                            report.add(fail_violation("C10", &f, &o, &evs).feat("fault", format!("auto-correct file states {:?} then {:?}", init, seqs[si])));
                            continue;
                        }
                    }
                    compare(&mut live, &evs, "after one more update-engine with the file untouched");
                }
            },
            |_| (),
        );
    }

    let mut ev = Evidence::new("C10", &report.tier, "fault_enumeration");
    ev.set("live_fault_sequences_with_update_engine", live_faults.load(Ordering::Relaxed));
    ev.set("evaluations", runs.load(Ordering::Relaxed).max(1));
    ev.set("distinct_nontrivial", (faults.len() * cfgs.len()).max(2));
    ev.set("rule", "evaluations = (fault, configuration, session) runs: the fault is installed, a context is created with new_with_config and the session executed; distinct_nontrivial = distinct (fault, configuration) pairs. Faults: every byte prefix of every store of <= N entries in every key order (engine format), corpus documents for both files, every prefix of a valid auto-correct file, four directory states");
    ev.set("exhaustive", true);
    ev.set("faults", faults.len());
    ev.set("store_prefix_faults", prefix_faults);
    ev.set("stores_in_engine_format", stores.len());
    ev.set("max_store_entries", max_entries);
    ev.set("corpus_documents", corpus.len());
    ev.set("sessions_per_fault", sessions.len());
    ev.set("session_depth", depth);
    ev.set("contexts_created", creations.load(Ordering::Relaxed));
    ev.set("sessions_compared_with_absent_file_reference", compared.load(Ordering::Relaxed));
    ev.set("in_memory_choice_checks_after_directory_faults", in_memory_checks.load(Ordering::Relaxed));
    ev.set("stores_written_by_the_engine_distinct", written_formats.lock().unwrap().len());
    ev.set("stores_written_by_the_engine_not_in_harness_format", format_mismatch.load(Ordering::Relaxed));
    ev.set("samples", samples.take());
    if format_mismatch.load(Ordering::Relaxed) > 0 {
        panic!("fault model does not conform: the engine wrote a store that is not in the harness's engine format");
    }
    ev.assume("crash model of the save = a prefix of the one write(2) of the whole document; key order = every permutation (the engine's order is hash-random)");
    ev.assume("running as root: 'not writable' is produced structurally (directory missing / is a file / path is a directory)");
    ev
}
