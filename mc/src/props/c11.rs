//! C11 — re-configuring a live context is equivalent to creating a new one.
//!
//! Enumerated: (configuration pair) x (initial user auto-correct file) x (history before the
//! update, ending idle, <= 2 macro steps incl. memo-filling words and a learning commit) x
//! (edit of the user auto-correct file, mtime set explicitly) x (continuation of <= 2 words).
//! Oracle: after update_engine(cfg') the continuation's renderings equal those of a context
//! created with new_with_config(cfg') over the same user directory.

use crate::drv::{fixture, probhat, scratch_xdg, Ctx, Ev, Fail, Opts, Out, Rend};
use crate::par::par_for;
use crate::props::c01::fail_violation;
use crate::report::{Evidence, Report, Samples, Violation};
use serde_json::json;
use std::sync::atomic::{AtomicU64, Ordering};
use std::time::{Duration, SystemTime};

#[derive(Clone, Copy, Debug, PartialEq)]
enum Before {
    TypeFinish(usize),
    TypeCommit(usize),
}
const WORDS: [&str; 3] = ["as", "aser", "k"];
/// the same three slots typed through a fixed layout (Probhat keys): ক, হন, স - each has dictionary completions with the signs
/// ু / ূ, which traditional joining rewrites, so a list built under other options is recognisable
const FWORDS: [&str; 3] = ["k", "hn", "s"];
fn word_for(ctx: &Ctx, k: usize) -> &'static str {
    if ctx.opts.layout.contains("avro_phonetic") { WORDS[k] } else { FWORDS[k] }
}

#[derive(Clone, Copy, Debug, PartialEq)]
enum Edit {
    None,
    Write(usize),
    Remove,
}
/// (the last: entries with an empty value and with a value that transliterates to nothing - an empty candidate in both cases)
const DOCS: [&str; 5] = [r#"{"as":"ash"}"#, r#"{"as":"asOr","aser":"eser"}"#, r#"{"k":"kOkk"}"#, r#"{"as":"#, r#"{"as":"","k":"`","aser":""}"#];

fn t0() -> SystemTime {
    SystemTime::UNIX_EPOCH + Duration::from_secs(1_700_000_000)
}

fn write_ac(o: &Opts, doc: &str, tick: u64) {
    let p = o.user_autocorrect_file();
    std::fs::write(&p, doc).expect("write user autocorrect");
    let f = std::fs::File::options().write(true).open(&p).expect("open");
    f.set_modified(t0() + Duration::from_secs(tick)).expect("set mtime");
}

fn type_word(ctx: &mut Ctx, w: &str, evs: &mut Vec<Ev>, rends: &mut Vec<Rend>) -> Result<Option<Rend>, Fail> {
    let mut shown = None;
    for c in w.chars() {
        let sel = shown.as_ref().map(|r: &Rend| r.sel().min(255) as u8).unwrap_or(0);
        let ev = Ev::Key { code: crate::keys::code_for_char(c).unwrap(), m: 0, sel };
        evs.push(ev.clone());
        if let Out::Sugg(r) = ctx.apply(&ev)? {
            rends.push(r.clone());
            shown = Some(r);
        }
    }
    Ok(shown)
}

fn run_before(ctx: &mut Ctx, steps: &[Before], evs: &mut Vec<Ev>) -> Result<(), Fail> {
    let mut sink = vec![];
    for s in steps {
        match s {
            Before::TypeFinish(k) => {
                type_word(ctx, word_for(ctx, *k), evs, &mut sink)?;
                evs.push(Ev::Finish);
                ctx.apply(&Ev::Finish)?;
            }
            Before::TypeCommit(k) => {
                let shown = type_word(ctx, word_for(ctx, *k), evs, &mut sink)?;
                let n = shown.as_ref().map(|r| r.len()).unwrap_or(0);
                let i = if n > 1 { 1 } else { 0 };
                evs.push(Ev::Commit(i));
                ctx.apply(&Ev::Commit(i))?;
            }
        }
    }
    Ok(())
}

/// continuation step: (word, ending) with ending 0 = finish, 1 = commit of candidate 0, 2 = commit of the last candidate
fn run_cont(ctx: &mut Ctx, cont: &[(usize, u8)], evs: &mut Vec<Ev>) -> Result<Vec<Rend>, Fail> {
    let mut rends = vec![];
    for (k, ending) in cont {
        let shown = type_word(ctx, word_for(ctx, *k), evs, &mut rends)?;
        // a backspace in the middle so that the re-shown list is compared too
        evs.push(Ev::Bs);
        let mut after_bs = None;
        if let Out::Sugg(r) = ctx.apply(&Ev::Bs)? {
            after_bs = Some(r.clone());
            rends.push(r);
        }
        // a lonely suggestion counts as a list of one (commit 0 is what a front-end sends for it)
        let n = after_bs.as_ref().or(shown.as_ref()).map(|r| if matches!(r, Rend::Single { .. }) { 1 } else { r.len() }).unwrap_or(0);
        let ev = match ending {
            1 if n > 0 => Ev::Commit(0),
            2 if n > 0 => Ev::Commit(n - 1),
            _ => Ev::Finish,
        };
        evs.push(ev.clone());
        ctx.apply(&ev)?;
    }
    Ok(rends)
}

pub fn run(report: &Report, thorough: bool) -> Evidence {
    let tiny = fixture("tiny_db");
    let alt = fixture("layout_alt.json");
    let samples = Samples::new(8);
    // ---- configuration pairs ----
    let ph = |bits: u32| {
        let mut o = Opts::phonetic(&tiny, "");
        o.english = bits & 1 != 0;
        o.psugg = bits & 2 != 0;
        o.ansi = bits & 4 != 0;
        o.smart = bits & 8 != 0;
        o
    };
    let fx = |layout: &str, bits: u32| {
        let mut o = Opts::fixed(layout, &tiny, "");
        o.english = bits & 1 != 0;
        o.fsugg = bits & 2 != 0;
        o.vowel = bits & 4 != 0;
        o.chandra = bits & 8 != 0;
        o.kar = bits & 16 != 0;
        o.reph = bits & 32 != 0;
        o.numpad = bits & 64 != 0;
        o.karorder = bits & 128 != 0;
        o.ansi = bits & 256 != 0;
        o.smart = bits & 512 != 0;
        o
    };
    let mut pairs: Vec<(Opts, Opts)> = vec![];
    let ph_def = ph(0b1010);
    let fx_def = fx(&probhat(), 0b10_0011_1110);
    pairs.push((ph_def.clone(), fx_def.clone()));
    pairs.push((fx_def.clone(), ph_def.clone()));
    pairs.push((fx_def.clone(), fx(&alt, 0b10_0011_1110)));
    pairs.push((fx(&alt, 0b10_0011_1110), fx_def.clone()));
    pairs.push((ph_def.clone(), ph_def.clone()));
    pairs.push((ph(0b1011), ph(0b1011)));
    for base in [0u32, 0b1111] {
        for i in 0..4 {
            pairs.push((ph(base), ph(base ^ (1 << i))));
            if thorough {
                for j in (i + 1)..4 {
                    pairs.push((ph(base), ph(base ^ (1 << i) ^ (1 << j))));
                }
            }
        }
    }
    for base in [0u32, 0b11_1111_1111] {
        for i in 0..10 {
            pairs.push((fx(&probhat(), base), fx(&probhat(), base ^ (1 << i))));
            if thorough {
                for j in (i + 1)..10 {
                    pairs.push((fx(&probhat(), base), fx(&probhat(), base ^ (1 << i) ^ (1 << j))));
                }
            }
        }
    }
    // ---- histories, edits, continuations ----
    let bsteps = [Before::TypeFinish(0), Before::TypeFinish(1), Before::TypeCommit(0), Before::TypeCommit(1)];
    let mut befores: Vec<Vec<Before>> = vec![vec![]];
    for a in bsteps {
        befores.push(vec![a]);
        for b in bsteps {
            befores.push(vec![a, b]);
        }
    }
    // the third word slot (a ONE-key word: its list is the first thing the next word's first key asks for again) as the only
    // word before the update
    befores.push(vec![Before::TypeFinish(2)]);
    befores.push(vec![Before::TypeCommit(2)]);
    // initial user files: (auto-correct document, learned-selection store present?)
    let initials: Vec<Option<usize>> = vec![None, Some(0), None];
    // a learned store with a non-first candidate for two of the words, probed from the real engine
    let store: String = {
        let mut o = ph(0b0010);
        o.xdg = scratch_xdg("c11-store");
        let mut c = Ctx::new(&o).expect("ctx");
        c.with_pre = false;
        let mut m = serde_json::Map::new();
        for w in ["as", "k"] {
            let _ = c.apply(&Ev::Finish);
            let mut last = None;
            for ch in w.chars() {
                last = c.ch(ch).ok();
            }
            if let Some(r) = last {
                if r.len() > 1 {
                    m.insert(w.to_string(), json!(r.items()[1]));
                }
            }
        }
        serde_json::Value::Object(m).to_string()
    };
    let edits: Vec<Edit> = vec![Edit::None, Edit::Write(0), Edit::Write(1), Edit::Write(2), Edit::Write(3), Edit::Remove, Edit::Write(4)];
    // continuations: words ended by finish, or by a commit (the store written by the live context must equal the one
    // a new context writes)
    let conts: Vec<Vec<(usize, u8)>> = vec![
        vec![(0, 0)], vec![(1, 0)], vec![(2, 0)], vec![(0, 0), (1, 0)], vec![(1, 0), (0, 0)], vec![(2, 0), (0, 0)],
        vec![(0, 1), (0, 0)], vec![(0, 2), (0, 0)], vec![(1, 2), (0, 1), (1, 0)],
    ];

    let runs = AtomicU64::new(0);
    let rend_compared = AtomicU64::new(0);
    let events = AtomicU64::new(0);
    // work item = (pair, initial, before)
    let n_items = pairs.len() * initials.len() * befores.len();
    par_for(
        n_items,
        1,
        |w| scratch_xdg(&format!("c11-{}", w)),
        |xdg, idx| {
            let pi = idx % pairs.len();
            let ii = (idx / pairs.len()) % initials.len();
            let bi = idx / (pairs.len() * initials.len());
            let (mut c1, mut c2) = pairs[pi].clone();
            c1.xdg = xdg.clone();
            c2.xdg = xdg.clone();
            // the user auto-correct file only matters when a phonetic method is involved
            let phonetic_involved = c1.is_phonetic() || c2.is_phonetic();
            if !phonetic_involved && (ii > 0) {
                return;
            }
            // a second (edit, update-engine) round after the first one, for the histories of <= 1 step
            let second: Vec<Option<Edit>> = if phonetic_involved && befores[bi].len() <= 1 && c1.is_phonetic() && c2.is_phonetic() {
                let mut v: Vec<Option<Edit>> = vec![None];
                // (quick tier: three representative second edits - another document, a truncated one, removal)
                v.extend(edits.iter().skip(1).filter(|e| thorough || matches!(e, Edit::Write(1) | Edit::Write(3) | Edit::Remove)).map(|e| Some(*e)));
                v
            } else {
                vec![None]
            };
            for (ei, edit) in edits.iter().enumerate() {
                if !phonetic_involved && ei > 0 {
                    continue;
                }
              for edit2 in &second {
               // 0: none; 1: an intermediate update with the list flipped; 2: a round trip through the OTHER method (phonetic ->
               // Probhat -> phonetic, fixed -> phonetic -> fixed) after the edit: whatever the context keeps of the method it
               // leaves must not come back when it returns
               for mid in [0u8, 1, 2] {
                let with_mid = mid != 0;
                if mid == 1 && !(edit2.is_none() && *edit != Edit::None && befores[bi].len() <= 1 && c1.is_phonetic() && c2.is_phonetic()) {
                    continue;
                }
                if mid == 2 && !(edit2.is_none() && befores[bi].len() <= 1 && c1.is_phonetic() == c2.is_phonetic() && (c1.is_phonetic() || *edit == Edit::None)) {
                    continue;
                }
                for cont in &conts {
                    if with_mid && cont.len() > 1 {
                        continue;
                    }
                    // fresh directory state
                    crate::drv::clear_user_files(&c1);
                    if let Some(d) = initials[ii] {
                        write_ac(&c1, DOCS[d], 0);
                    }
                    if ii == 2 {
                        std::fs::write(c1.selection_file(), &store).expect("store");
                    }
                    runs.fetch_add(1, Ordering::Relaxed);
                    let mut evs: Vec<Ev> = vec![];
                    let fail = |f: &Fail, evs: &[Ev]| {
                        report.add(fail_violation("C11", f, &c1, evs).feat("edit", format!("{:?}", edit)));
                    };
                    let mut live = match Ctx::new(&c1) {
                        Ok(c) => c,
                        Err(p) => {
                            report.add(Violation::new("C11", "panic-at-creation", "panic-at-creation").opts(&c1).detail(p.short()));
                            continue;
                        }
                    };
                    live.with_pre = false;
                    if let Err(f) = run_before(&mut live, &befores[bi], &mut evs) {
                        fail(&f, &evs);
                        continue;
                    }
                    match edit {
                        Edit::None => {}
                        Edit::Write(d) => write_ac(&c1, DOCS[*d], 10),
                        Edit::Remove => {
                            let _ = std::fs::remove_file(c1.user_autocorrect_file());
                        }
                    }
                    let up = Ev::Update(Box::new(c2.clone()));
                    // an intermediate update-engine with the suggestion list flipped (file already edited): the re-load must not
                    // be lost between two updates. For short histories and one continuation per edit, phonetic -> phonetic.
                    if with_mid {
                        let mut cm = c2.clone();
                        if mid == 1 {
                            cm.psugg = !cm.psugg;
                        } else {
                            cm = if c2.is_phonetic() { fx_def.clone() } else { ph_def.clone() };
                            cm.xdg = xdg.clone();
                        }
                        let upm = Ev::Update(Box::new(cm));
                        evs.push(upm.clone());
                        if let Err(f) = live.apply(&upm) {
                            fail(&f, &evs);
                            continue;
                        }
                    }
                    evs.push(up.clone());
                    if let Err(f) = live.apply(&up) {
                        fail(&f, &evs);
                        continue;
                    }
                    if let Some(e2) = edit2 {
                        match e2 {
                            Edit::None => {}
                            Edit::Write(d) => write_ac(&c1, DOCS[*d], 20),
                            Edit::Remove => {
                                let _ = std::fs::remove_file(c1.user_autocorrect_file());
                            }
                        }
                        evs.push(up.clone());
                        if let Err(f) = live.apply(&up) {
                            fail(&f, &evs);
                            continue;
                        }
                    }
                    let store_after_update = std::fs::read(c1.selection_file()).ok();
                    let mut e_live = evs.clone();
                    let got = run_cont(&mut live, cont, &mut e_live);
                    let store_live = std::fs::read(c1.selection_file()).ok();
                    // a new context over the same user files
                    match &store_after_update {
                        Some(b) => std::fs::write(c1.selection_file(), b).unwrap(),
                        None => {
                            let _ = std::fs::remove_file(c1.selection_file());
                        }
                    }
                    let mut fresh = match Ctx::new(&c2) {
                        Ok(c) => c,
                        Err(p) => {
                            report.add(Violation::new("C11", "panic-at-creation", "panic-at-creation").opts(&c2).events(&evs).detail(p.short()));
                            continue;
                        }
                    };
                    fresh.with_pre = false;
                    let mut e_fresh = vec![];
                    let exp = run_cont(&mut fresh, cont, &mut e_fresh);
                    let store_fresh = std::fs::read(c1.selection_file()).ok();
                    // compared on the words committed in the continuation (the live context may additionally persist
                    // entries it had derived and memoised in memory earlier — same behaviour, more keys)
                    let committed: Vec<&str> = cont.iter().filter(|(_, e)| *e != 0).map(|(k, _)| &WORDS[*k][..WORDS[*k].len() - 1]).collect(); // typed word minus the backspaced letter
                    let canon = |b: &Option<Vec<u8>>| -> String {
                        match b.as_ref().map(|b| serde_json::from_slice::<std::collections::BTreeMap<String, String>>(b)) {
                            None => "<no store>".to_string(),
                            Some(Ok(m)) => format!("{:?}", committed.iter().map(|w| (w.to_string(), m.get(*w).cloned())).collect::<Vec<_>>()),
                            Some(Err(_)) => "<unreadable store>".to_string(),
                        }
                    };
                    let absent_equiv = |x: &str| x == "<no store>" || committed.is_empty() || x == format!("{:?}", committed.iter().map(|w| (w.to_string(), None::<String>)).collect::<Vec<_>>());
                    if canon(&store_live) != canon(&store_fresh) && !(absent_equiv(&canon(&store_live)) && absent_equiv(&canon(&store_fresh))) {
                        report.add(
                            Violation::new("C11", "update-differs-from-new-context", "update-differs:store-written")
                                .opts(&c1)
                                .events(&e_live)
                                .feat("edit", format!("{:?}", edit))
                                .feat("new_flags", c2.flags())
                                .detail(format!("after the continuation the learned-selection store is {:?} in the updated context but {:?} when a new context runs the same continuation (update to [{}])", canon(&store_live), canon(&store_fresh), c2.flags())),
                        );
                    }
                    events.fetch_add((e_live.len() + e_fresh.len()) as u64, Ordering::Relaxed);
                    match (got, exp) {
                        (Ok(g), Ok(x)) => {
                            rend_compared.fetch_add(g.len() as u64, Ordering::Relaxed);
                            if g != x {
                                let k = g.iter().zip(x.iter()).position(|(a, b)| a != b).unwrap_or(0);
                                let what = if c1.layout != c2.layout { "layout-change" } else if c1.is_phonetic() && *edit != Edit::None { "autocorrect-edit" } else { "option-flip" };
                                report.add(
                                    Violation::new("C11", "update-differs-from-new-context", &format!("update-differs:{}", what))
                                        .opts(&c1)
                                        .events(&e_live)
                                        .feat("edit", format!("{:?}", edit))
                                        .feat("second_edit", format!("{:?}", edit2))
                                        .feat("initial_autocorrect", format!("{:?}", initials[ii].map(|d| DOCS[d])))
                                        .feat("new_flags", c2.flags())
                                        .feat("new_layout", c2.layout.clone())
                                        .detail(format!(
                                            "initial user auto-correct {:?}{}, edit {:?} ({}){}, update to [{}] layout {}: rendering {} of the continuation is {} in the updated context but {} in a new one",
                                            initials[ii].map(|d| DOCS[d]),
                                            if ii == 2 { format!(" and learned store {}", store) } else { String::new() },
                                            edit,
                                            if let Edit::Write(d) = edit { DOCS[*d] } else { "" },
                                            match edit2 { Some(e) => format!(", update-engine, then edit {:?}", e), None => String::new() },
                                            c2.flags(),
                                            c2.layout,
                                            k,
                                            g.get(k).map(|r| r.to_json()).unwrap_or_default(),
                                            x.get(k).map(|r| r.to_json()).unwrap_or_default()
                                        )),
                                );
                            } else if *edit != Edit::None && befores[bi].len() == 1 {
                                samples.offer(|| json!({"from": c1.flags(), "to": c2.flags(), "before": format!("{:?}", befores[bi]), "edit": format!("{:?}", edit), "continuation": format!("{:?}", cont), "renderings_equal": g.len()}));
                            }
                        }
                        (Err(f), _) => fail(&f, &e_live),
                        (_, Err(f)) => {
                            report.add(fail_violation("C11", &f, &c2, &e_fresh));
                        }
                    }
                }
               }
              }
            }
        },
        |_| (),
    );

    // ---- variants of the words the user's auto-correct file has entries for (other letter case, wrapped in punctuation,
    // suffixed): typed before the file is edited / truncated / removed and again after update-engine; whatever the context
    // keeps for them must not outlive the re-load
    let variant_runs = AtomicU64::new(0);
    {
        let variants = ["As", "AS", "(as)", "Aser.", "as", "k.", "K"];
        let vedits: Vec<(usize, Edit)> = vec![(0, Edit::Write(1)), (0, Edit::Write(3)), (0, Edit::Remove), (1, Edit::Write(2)), (2, Edit::Write(0)), (1, Edit::Write(3)), (0, Edit::Write(4)), (4, Edit::Write(0))];
        par_for(
            vedits.len() * 4,
            1,
            |w| scratch_xdg(&format!("c11v-{}", w)),
            |xdg, idx| {
                let (init, edit) = vedits[idx % vedits.len()];
                let bits = idx / vedits.len();
                let mut c = ph(0b1010 | (bits as u32 & 1));
                c.smart = bits & 2 != 0;
                c.xdg = xdg.clone();
                for first in 0..variants.len() {
                    crate::drv::clear_user_files(&c);
                    write_ac(&c, DOCS[init], 0);
                    variant_runs.fetch_add(1, Ordering::Relaxed);
                    let mut evs: Vec<Ev> = vec![];
                    let Ok(mut live) = Ctx::new(&c) else { continue };
                    live.with_pre = false;
                    let mut sink = vec![];
                    // one variant first (alone in the memo), then all of them
                    let order: Vec<&str> = std::iter::once(variants[first]).chain(variants.iter().copied()).collect();
                    let mut ok = true;
                    for v in &order {
                        if type_word(&mut live, v, &mut evs, &mut sink).is_err() || live.apply(&Ev::Finish).is_err() {
                            ok = false;
                            break;
                        }
                        evs.push(Ev::Finish);
                    }
                    if !ok {
                        continue;
                    }
                    match edit {
                        Edit::None => {}
                        Edit::Write(d) => write_ac(&c, DOCS[d], 10),
                        Edit::Remove => {
                            let _ = std::fs::remove_file(c.user_autocorrect_file());
                        }
                    }
                    let up = Ev::Update(Box::new(c.clone()));
                    evs.push(up.clone());
                    if let Err(f) = live.apply(&up) {
                        report.add(fail_violation("C11", &f, &c, &evs));
                        continue;
                    }
                    let Ok(mut fresh) = Ctx::new(&c) else { continue };
                    fresh.with_pre = false;
                    for v in &variants {
                        let mut got = vec![];
                        let mut exp = vec![];
                        let mut e2 = vec![];
                        let a = type_word(&mut live, v, &mut evs, &mut got);
                        let b = type_word(&mut fresh, v, &mut e2, &mut exp);
                        let _ = live.apply(&Ev::Finish);
                        let _ = fresh.apply(&Ev::Finish);
                        evs.push(Ev::Finish);
                        rend_compared.fetch_add(got.len() as u64, Ordering::Relaxed);
                        if a.is_ok() && b.is_ok() && got != exp {
                            report.add(
                                Violation::new("C11", "update-differs-from-new-context", "update-differs:variant-of-an-auto-correct-key")
                                    .opts(&c)
                                    .events(&evs)
                                    .feat("edit", format!("{:?}", edit))
                                    .detail(format!("user auto-correct file {} at creation, variants typed, then {:?} and update-engine: typing {:?} renders {:?}, a new context renders {:?}", DOCS[init], edit, v, got.iter().map(|r| r.to_json()).collect::<Vec<_>>(), exp.iter().map(|r| r.to_json()).collect::<Vec<_>>())),
                            );
                            break;
                        }
                    }
                }
            },
            |_| (),
        );
    }

    // ---- fixed method, synthetic layout: every option flip (thorough: every pair of flips) from all-off and all-on,
    // with continuations that exercise each helper (sign at the start, chandrabindu before a sign, reph key, left-standing
    // sign first, ro-/zo-fola, hasanta, number-pad key, quotes): every sequence of <= 2 keys over a 14-key alphabet, then a
    // backspace and the four word endings. A method that keeps an option value from its creation shows here.
    let synth_runs = AtomicU64::new(0);
    let synth_rends = AtomicU64::new(0);
    {
        let synth = fixture("layout_synth.json");
        let mut spairs: Vec<(Opts, Opts)> = vec![];
        for base in [0u32, 0b11_1111_1111] {
            for i in 0..10 {
                spairs.push((fx(&synth, base), fx(&synth, base ^ (1 << i))));
                if thorough {
                    for j in (i + 1)..10 {
                        spairs.push((fx(&synth, base), fx(&synth, base ^ (1 << i) ^ (1 << j))));
                    }
                }
            }
        }
        use crate::props::c12::key_ev;
        let keys: Vec<Ev> = vec![
            key_ev('k', false), key_ev('a', false), key_ev('i', false), key_ev('v', false), key_ev('>', false), key_ev('/', false),
            key_ev('k', true), key_ev('r', true), key_ev('z', true), key_ev('r', false), key_ev('\'', false), key_ev('"', false),
            key_ev('[', false), Ev::key(crate::keys::by_name("VC_KP_1").unwrap().code),
        ];
        let mut seqs: Vec<Vec<Ev>> = vec![];
        for a in &keys {
            seqs.push(vec![a.clone()]);
            for b in &keys {
                seqs.push(vec![a.clone(), b.clone()]);
            }
        }
        if thorough {
            for a in &keys[..10] {
                for b in &keys[..10] {
                    for c in &keys[..10] {
                        seqs.push(vec![a.clone(), b.clone(), c.clone()]);
                    }
                }
            }
        }
        let sbefores: Vec<Vec<Ev>> = vec![
            vec![],
            vec![keys[0].clone(), keys[6].clone(), Ev::Finish],
            vec![keys[2].clone(), Ev::Finish],
            vec![keys[0].clone(), keys[1].clone(), Ev::Commit(0)],
            vec![keys[11].clone(), keys[0].clone(), Ev::CtrlBs],
        ];
        let endings = [Ev::Finish, Ev::Commit(0), Ev::CtrlBs];
        par_for(
            spairs.len() * sbefores.len(),
            1,
            |w| scratch_xdg(&format!("c11s-{}", w)),
            |xdg, idx| {
                let (mut c1, mut c2) = spairs[idx % spairs.len()].clone();
                let before = &sbefores[idx / spairs.len()];
                c1.xdg = xdg.clone();
                c2.xdg = xdg.clone();
                let run = |ctx: &mut Ctx, seq: &[Ev], ending: &Ev, evs: &mut Vec<Ev>| -> Result<Vec<Rend>, Fail> {
                    let mut rends = vec![];
                    let mut all: Vec<Ev> = seq.to_vec();
                    all.push(Ev::Bs);
                    all.push(seq[0].clone());
                    all.push(ending.clone());
                    all.push(seq[seq.len() - 1].clone());
                    all.push(Ev::Finish);
                    for e in all {
                        evs.push(e.clone());
                        if let Out::Sugg(r) = ctx.apply(&e)? {
                            rends.push(r);
                        }
                    }
                    Ok(rends)
                };
                let mut live = match Ctx::new(&c1) {
                    Ok(c) => c,
                    Err(p) => {
                        report.add(Violation::new("C11", "panic-at-creation", "panic-at-creation").opts(&c1).detail(p.short()));
                        return;
                    }
                };
                let mut fresh = match Ctx::new(&c2) {
                    Ok(c) => c,
                    Err(p) => {
                        report.add(Violation::new("C11", "panic-at-creation", "panic-at-creation").opts(&c2).detail(p.short()));
                        return;
                    }
                };
                let back = Ev::Update(Box::new(c1.clone()));
                let up = Ev::Update(Box::new(c2.clone()));
                // one long-lived context per (pair, history): switched back to cfg, history, update, continuation - so later
                // rounds also start from a context that has been re-configured many times
                let mut evs: Vec<Ev> = vec![];
                for (si, seq) in seqs.iter().enumerate() {
                    let ending = &endings[si % endings.len()];
                    synth_runs.fetch_add(1, Ordering::Relaxed);
                    let start = evs.len();
                    let mut prefix_ok = true;
                    for e in std::iter::once(&back).chain(before.iter()).chain(std::iter::once(&up)) {
                        evs.push(e.clone());
                        if let Err(f) = live.apply(e) {
                            report.add(fail_violation("C11", &f, &c1, &evs));
                            prefix_ok = false;
                            break;
                        }
                    }
                    if !prefix_ok {
                        return;
                    }
                    let got = run(&mut live, seq, ending, &mut evs);
                    let mut e2 = vec![];
                    fresh = match Ctx::new(&c2) {
                        Ok(c) => c,
                        Err(_) => return,
                    };
                    let exp = run(&mut fresh, seq, ending, &mut e2);
                    events.fetch_add((evs.len() - start + e2.len()) as u64, Ordering::Relaxed);
                    match (got, exp) {
                        (Ok(g), Ok(x)) => {
                            synth_rends.fetch_add(g.len() as u64, Ordering::Relaxed);
                            if g != x {
                                let k = g.iter().zip(x.iter()).position(|(a, b)| a != b).unwrap_or(0);
                                // shortest reproduction: the last round only, in a new context
                                let mut short: Vec<Ev> = before.clone();
                                short.push(up.clone());
                                short.extend(evs[evs.len() - e2.len()..].iter().cloned());
                                let mut rep = Ctx::new(&c1).expect("ctx");
                                let mut reproduced = false;
                                let mut rr = vec![];
                                for e in &short {
                                    if let Ok(Out::Sugg(r)) = rep.apply(e) {
                                        rr.push(r);
                                    }
                                }
                                if rr.len() >= x.len() && rr[rr.len() - x.len()..] != x[..] {
                                    reproduced = true;
                                }
                                let flipped: Vec<String> = {
                                    let (a, b) = (c1.flags(), c2.flags());
                                    let (sa, sb): (std::collections::BTreeSet<&str>, std::collections::BTreeSet<&str>) = (a.split('+').collect(), b.split('+').collect());
                                    sa.symmetric_difference(&sb).map(|s| s.to_string()).collect()
                                };
                                report.add(
                                    Violation::new("C11", "update-differs-from-new-context", &format!("update-differs:fixed-option-flip:{}", flipped.join("+")))
                                        .opts(&c1)
                                        .events(if reproduced { &short } else { &evs })
                                        .feat("new_flags", c2.flags())
                                        .feat("new_layout", c2.layout.clone())
                                        .detail(format!(
                                            "layout_synth.json, update to [{}]: rendering {} of the continuation is {} in the updated context but {} in a new one{}",
                                            c2.flags(),
                                            k,
                                            g.get(k).map(|r| r.to_json()).unwrap_or_default(),
                                            x.get(k).map(|r| r.to_json()).unwrap_or_default(),
                                            if reproduced { "" } else { " (only after the earlier rounds of this long-lived context)" }
                                        )),
                                );
                                return;
                            }
                        }
                        (Err(f), _) => {
                            report.add(fail_violation("C11", &f, &c1, &evs));
                            return;
                        }
                        (_, Err(f)) => {
                            report.add(fail_violation("C11", &f, &c2, &e2));
                            return;
                        }
                    }
                    if evs.len() > 4000 {
                        evs.clear();
                    }
                }
            },
            |_| (),
        );
    }

    let mut ev = Evidence::new("C11", &report.tier, "model_checking");
    ev.set("synthetic_layout_option_flip_runs", synth_runs.load(Ordering::Relaxed));
    ev.set("autocorrect_key_variant_runs", variant_runs.load(Ordering::Relaxed));
    ev.set("synthetic_layout_renderings_compared", synth_rends.load(Ordering::Relaxed));
    ev.set("states", (runs.load(Ordering::Relaxed) + synth_runs.load(Ordering::Relaxed)).max(1));
    ev.set("transitions", events.load(Ordering::Relaxed).max(1));
    ev.set("traces_validated_against_impl", runs.load(Ordering::Relaxed) + synth_runs.load(Ordering::Relaxed));
    ev.set("renderings_compared", rend_compared.load(Ordering::Relaxed) + synth_rends.load(Ordering::Relaxed));
    ev.set("configuration_pairs", pairs.len());
    ev.set("initial_user_file_states", initials.len());
    ev.set("second_edit_rounds_for_short_histories", edits.len());
    ev.set("histories_before_update", befores.len());
    ev.set("autocorrect_edits", edits.len());
    ev.set("continuations", conts.len());
    ev.set("samples", samples.take());
    ev.set("exhaustive", true);
    ev.set("explanation", "states = (configuration pair, initial file, history, edit, continuation) runs; each run executes the history on a context created with new_with_config(cfg), edits the user auto-correct file (mtime set explicitly), calls update_engine(cfg') and compares every rendering of the continuation with a context created with new_with_config(cfg') over the same files");
    ev.assume("update-engine is called while idle (the histories before it end with finish or commit)");
    ev.assume("tiny database for both methods; layouts Probhat and layout_alt.json");
    ev
}
