//! C12 — fixed-layout composition helpers rewrite the text exactly as documented.
//!
//! State graph of the real fixed method (old vowel-sign order off) under all 16 settings of
//! {auto vowel, auto chandrabindu, traditional joining, old reph}, closed at composition
//! length L; on every transition the returned text is compared with the reference `step`.

use crate::drv::{fixture, scratch_xdg, Ctx, Ev, Fail, Opts, Out, Rend};
use crate::fxgraph::{bfs, hist_events, GraphStats};
use crate::fxref::{fixed_step_ref, is_single_insertion, RefOut};
use crate::par::par_for;
use crate::report::{Evidence, Report, Samples, Violation};
use serde_json::json;
use std::collections::HashMap;
use std::sync::atomic::{AtomicU64, Ordering};
use std::sync::Mutex;

/// (ASCII character of the key, AltGr) on layout_synth.json
pub const ALPHABET: &[(char, bool)] = &[
    ('k', false), // ka
    ('f', false), // ta
    ('r', false), // ra
    ('Z', false), // ya
    ('v', false), // independent aa
    ('I', false), // independent i
    ('a', false), // aa-kar
    ('i', false), // i-kar
    ('u', false), // u-kar (ligature making)
    ('[', false), // e-kar
    (']', false), // o-kar
    ('}', false), // ou-kar
    ('/', false), // hasanta
    ('>', false), // chandrabindu
    ('L', false), // anusvara
    ('\\', false), // ZWNJ
    (',', false), // punctuation inside the old MARKS table
    ('\'', false), // punctuation (apostrophe)
    ('.', false), // danda
    ('1', false), // digit
    ('k', true),  // reph
    ('r', true),  // ro-fola
    ('z', true),  // zo-fola
    ('K', true),  // kkha conjunct
    (']', true),  // AU length mark
    ('e', true),  // empty layout value: nothing changes
];

pub struct LayoutMap(pub HashMap<String, String>);
impl LayoutMap {
    pub fn load(path: &str) -> LayoutMap {
        let v: serde_json::Value = serde_json::from_str(&std::fs::read_to_string(path).expect("layout")).unwrap();
        LayoutMap(
            v["layout"].as_object().unwrap().iter().map(|(k, v)| (k.clone(), v.as_str().unwrap().to_string())).collect(),
        )
    }
    /// value of a main-zone key (harness key table + layout JSON)
    pub fn value(&self, c: char, altgr: bool) -> String {
        let k = crate::keys::KEYS.iter().find(|k| !k.numpad && k.ch == Some(c)).expect("key");
        self.0
            .get(&format!("Key_{}_{}", k.entry.unwrap(), if altgr { "AltGr" } else { "Normal" }))
            .cloned()
            .unwrap_or_default()
    }
}

pub fn key_ev(c: char, altgr: bool) -> Ev {
    Ev::Key { code: crate::keys::code_for_char(c).unwrap(), m: if altgr { 2 } else { 0 }, sel: 0 }
}

pub fn run(report: &Report, thorough: bool) -> Evidence {
    let max_len = if thorough { 5 } else { 4 };
    let layout = fixture("layout_synth.json");
    let lm = LayoutMap::load(&layout);
    let mut alphabet: Vec<Ev> = ALPHABET.iter().map(|&(c, a)| key_ev(c, a)).collect();
    let values: Vec<String> = ALPHABET.iter().map(|&(c, a)| lm.value(c, a)).collect();
    alphabet.push(Ev::Bs);
    let bs_sym = alphabet.len() - 1;
    let total = Mutex::new(GraphStats::default());
    let validated = AtomicU64::new(0);
    let unspecified = AtomicU64::new(0);
    let sweep = AtomicU64::new(0);
    let reph_conservation_only = AtomicU64::new(0);
    let rule_hits: Mutex<HashMap<&'static str, u64>> = Mutex::new(HashMap::new());
    let samples = Samples::new(8);
    let closed_all = Mutex::new(true);
    par_for(
        16,
        1,
        |w| scratch_xdg(&format!("c12-{}", w)),
        |xdg, setting| {
            let mut o = Opts::fixed(&layout, "", xdg);
            o.vowel = setting & 1 != 0;
            o.chandra = setting & 2 != 0;
            o.kar = setting & 4 != 0;
            o.reph = setting & 8 != 0;
            o.smart = false;
            let mut ctx = Ctx::new(&o).expect("context");
            ctx.with_pre = false;
            let mut local_rules: HashMap<&'static str, u64> = HashMap::new();
            let stats = bfs(&mut ctx, &alphabet, max_len, 64, |ctx, step| {
                let viol = |kind: &str, class: String, detail: String| {
                    let mut evs = hist_events(&alphabet, step.hist);
                    evs.push(step.ev.clone());
                    report.add(
                        Violation::new("C12", kind, &class)
                            .opts(&ctx.opts)
                            .feat("pre", crate::bn::esc(&step.pre.buf))
                            .feat("event", step.ev.short())
                            .events(&evs)
                            .detail(detail),
                    );
                };
                let rend = match step.out {
                    Ok(Out::Sugg(r)) => r,
                    Ok(Out::Unit) => unreachable!(),
                    Err(Fail::CallPanic(p)) => {
                        viol("panic", format!("panic:{}", p.short()), format!("call panicked: {} (line {})", p.short(), p.line));
                        return;
                    }
                    Err(f) => {
                        viol("read-failure", "read-failure".into(), format!("{:?}", f));
                        return;
                    }
                };
                if step.post.pending != 0 || !step.post.typed.is_empty() {
                    viol("hidden-state", "hidden-state".into(), format!("hidden state {:?} with old order and suggestions off", step.post));
                }
                let got = rend.text();
                if step.sym == bs_sym {
                    let mut exp = step.pre.buf.clone();
                    exp.pop();
                    validated.fetch_add(1, Ordering::Relaxed);
                    if got != exp || (exp.is_empty() != matches!(rend, Rend::Empty)) {
                        viol("backspace-mismatch", "backspace".into(), format!("backspace on {:?} gave {:?}, expected {:?}", step.pre.buf, got, exp));
                    }
                    return;
                }
                let value = &values[step.sym];
                match fixed_step_ref(&step.pre.buf, value, &ctx.opts) {
                    RefOut::Text(exp) => {
                        validated.fetch_add(1, Ordering::Relaxed);
                        let rule = if exp == format!("{}{}", step.pre.buf, value) { "append" } else { "rewrite" };
                        *local_rules.entry(rule).or_default() += 1;
                        if got != exp {
                            let cls = format!(
                                "step:{}:after-{}",
                                crate::bn::esc(value),
                                step.pre.buf.chars().last().map(|c| crate::bn::esc(&c.to_string())).unwrap_or("start".into())
                            );
                            viol(
                                "ref-step-mismatch",
                                cls,
                                format!("{:?} + key value {:?} gave {:?}, rule chain says {:?}", step.pre.buf, value, got, exp),
                            );
                        } else if rule == "rewrite" {
                            samples.offer(|| json!({"flags": ctx.opts.flags(), "pre": step.pre.buf, "value": value, "post": got}));
                        }
                    }
                    RefOut::Unspecified(_) => {
                        unspecified.fetch_add(1, Ordering::Relaxed);
                        // the statement gives no result for these inputs, but whatever the result is, it is made of the
                        // old text, the key's value and Bengali letters / joiners - nothing else (no control characters)
                        if let Some(bad) = got.chars().find(|c| !(step.pre.buf.contains(*c) || value.contains(*c) || crate::bn::is_bengali_block(*c) || *c == crate::bn::ZWNJ || *c == '\u{200D}')) {
                            viol("foreign-character", "foreign-character".into(), format!("{:?} + key value {:?} gave {:?}, which contains {:?}", step.pre.buf, value, got, bad));
                        }
                    }
                    RefOut::RephConservation => {
                        reph_conservation_only.fetch_add(1, Ordering::Relaxed);
                        if !is_single_insertion(&step.pre.buf, &got, crate::bn::REPH) {
                            viol("reph-conservation", "reph-conservation".into(), format!("reph on {:?} gave {:?}", step.pre.buf, got));
                        }
                    }
                }
            });
            // class sweep: the alphabet above has one representative per class; here EVERY ASCII
            // punctuation character and a set of other non-letter characters a layout may emit is
            // put in front of every key of the alphabet (one step, state set through the hook)
            let mut sweep_chars: Vec<char> = (33u8..=126).map(|b| b as char).filter(|c| c.is_ascii_punctuation()).collect();
            sweep_chars.extend("0 aZ\u{0964}\u{0965}\u{09E7}\u{0983}\u{09BD}\u{09F3}\u{200D}".chars());
            // ... under all 2^5 settings of the options the rule chain must NOT depend on
            // {English, suggestions (no database), number pad, ANSI, smart quotes}
            for other in 0..32u32 {
            let mut o2 = ctx.opts.clone();
            o2.english = other & 1 != 0;
            o2.fsugg = other & 2 != 0;
            o2.numpad = other & 4 != 0;
            o2.ansi = other & 8 != 0;
            o2.smart = other & 16 != 0;
            // every second of these contexts reaches its options through update-engine (created with every option inverted,
            // the four helper options included), every fourth is built on a used Config object
            o2.via_update = other % 2 == 1;
            o2.churn = other % 4 == 2;
            let mut ctx = Ctx::new(&o2).expect("context");
            ctx.with_pre = false;
            for &c in &sweep_chars {
                for prefix in ["", "\u{0995}"] {
                    let pre = crate::fxgraph::FxState { buf: format!("{}{}", prefix, c), typed: String::new(), pending: 0 };
                    for (sym, ev) in alphabet.iter().enumerate().take(bs_sym) {
                        crate::fxgraph::restore(&ctx, &pre);
                        let out = ctx.apply(ev);
                        sweep.fetch_add(1, Ordering::Relaxed);
                        let got = match &out {
                            Ok(Out::Sugg(r)) => r.text(),
                            _ => {
                                report.add(Violation::new("C12", "panic", "panic:class-sweep").opts(&ctx.opts).feat("pre", crate::bn::esc(&pre.buf)).origin(&pre.buf, "", 0).events(&[ev.clone()]).detail(format!("{:?} on synthetic state {:?}", out, pre.buf)));
                                continue;
                            }
                        };
                        if let RefOut::Text(exp) = fixed_step_ref(&pre.buf, &values[sym], &ctx.opts) {
                            if got != exp {
                                report.add(
                                    Violation::new("C12", "ref-step-mismatch", &format!("sweep:{}:after-{}", crate::bn::esc(&values[sym]), crate::bn::esc(&c.to_string())))
                                        .opts(&ctx.opts)
                                        .feat("pre", crate::bn::esc(&pre.buf))
                                        .origin(&pre.buf, "", 0)
                                        .events(&[ev.clone()])
                                        .detail(format!("composition {:?} (state set directly) + key value {:?} gave {:?}, rule chain says {:?}", pre.buf, values[sym], got, exp)),
                                );
                            }
                        }
                    }
                }
            }
            }
            // value sweep: EVERY key of the layout in both planes (all values the layout can emit, the rare signs and
            // letters among them), pressed in one composition state per character class (set through the hook)
            {
                let pres = ["", "\u{0995}", "\u{0995}\u{09CD}", "\u{0995}\u{09BE}", "\u{0986}", "\u{0995}\u{0981}", ",", "\u{09B0}", "\u{09E7}", "\u{0995}\u{200C}", "\u{0995}\u{09C4}"];
                for kd in crate::keys::KEYS.iter().filter(|k| !k.numpad && k.ch.is_some()) {
                    for altgr in [false, true] {
                        let value = lm.value(kd.ch.unwrap(), altgr);
                        if value.is_empty() {
                            continue;
                        }
                        let ev = Ev::Key { code: kd.code, m: if altgr { 2 } else { 0 }, sel: 0 };
                        for p in pres {
                            let pre = crate::fxgraph::FxState { buf: p.to_string(), typed: String::new(), pending: 0 };
                            crate::fxgraph::restore(&ctx, &pre);
                            let out = ctx.apply(&ev);
                            sweep.fetch_add(1, Ordering::Relaxed);
                            let got = match &out {
                                Ok(Out::Sugg(r)) => r.text(),
                                _ => {
                                    report.add(Violation::new("C12", "panic", "panic:value-sweep").opts(&ctx.opts).feat("pre", crate::bn::esc(p)).origin(p, "", 0).events(&[ev.clone()]).detail(format!("{:?} on synthetic state {:?}", out, p)));
                                    continue;
                                }
                            };
                            match fixed_step_ref(p, &value, &ctx.opts) {
                                RefOut::Text(exp) => {
                                    if got != exp {
                                        report.add(
                                            Violation::new("C12", "ref-step-mismatch", &format!("value-sweep:{}:after-{}", crate::bn::esc(&value), p.chars().last().map(|c| crate::bn::esc(&c.to_string())).unwrap_or("start".into())))
                                                .opts(&ctx.opts)
                                                .feat("pre", crate::bn::esc(p))
                                                .origin(p, "", 0)
                                                .events(&[ev.clone()])
                                                .detail(format!("composition {:?} (state set directly) + key value {:?} gave {:?}, rule chain says {:?}", p, value, got, exp)),
                                        );
                                    }
                                }
                                RefOut::Unspecified(_) => {
                                    if got == p {
                                        report.add(Violation::new("C12", "key-swallowed", "key-swallowed").opts(&ctx.opts).feat("pre", crate::bn::esc(p)).origin(p, "", 0).events(&[ev.clone()]).detail(format!("composition {:?} + key value {:?}: nothing happened", p, value)));
                                    }
                                }
                                RefOut::RephConservation => {}
                            }
                        }
                    }
                }
            }
            total.lock().unwrap().merge(&stats);
            if !stats.closed {
                *closed_all.lock().unwrap() = false;
            }
            let mut g = rule_hits.lock().unwrap();
            for (k, v) in local_rules {
                *g.entry(k).or_default() += v;
            }
        },
        |_| (),
    );
    // ---- dictionary sweep: LONG real compositions. Every word of dictionary.json (quick: every eighth) is typed key by key through
    // the bundled Probhat layout (really typed from the idle state, no hook) under all 16 settings; every step is compared with
    // the reference step applied to the text before it. Reaches compositions of 20 and more code points with three and more
    // conjuncts, which the closed graph (4-5 code points) cannot.
    let dict_steps = AtomicU64::new(0);
    let dict_words = AtomicU64::new(0);
    let dict_longest = AtomicU64::new(0);
    if crate::par::part_enabled("dict") {
        let dict = crate::data::Dict::load(&crate::drv::real_db());
        let inv = crate::data::InverseLayout::load(&crate::drv::probhat());
        let stride = if thorough { 1 } else { 8 };
        let mut words: Vec<&String> = dict.words().collect();
        words.sort();
        words.dedup();
        let words: Vec<&String> = words.into_iter().step_by(stride).collect();
        par_for(
            16 * 8,
            1,
            |w| scratch_xdg(&format!("c12d-{}", w)),
            |xdg, idx| {
                let setting = idx % 16;
                let part = idx / 16;
                let mut o = Opts::fixed(&crate::drv::probhat(), "", xdg);
                o.vowel = setting & 1 != 0;
                o.chandra = setting & 2 != 0;
                o.kar = setting & 4 != 0;
                o.reph = setting & 8 != 0;
                o.smart = false;
                let mut ctx = Ctx::new(&o).expect("context");
                ctx.with_pre = false;
                for w in words.iter().skip(part).step_by(8) {
                    let Some(evs) = inv.events(w) else { continue };
                    let _ = ctx.apply(&Ev::Finish);
                    dict_words.fetch_add(1, Ordering::Relaxed);
                    dict_longest.fetch_max(evs.len() as u64, Ordering::Relaxed);
                    let mut prev = String::new();
                    for (i, (e, c)) in evs.iter().zip(w.chars()).enumerate() {
                        let got = match ctx.apply(e) {
                            Ok(Out::Sugg(r)) => r.text(),
                            other => {
                                report.add(Violation::new("C12", "panic", "panic:dictionary-sweep").opts(&ctx.opts).events(&evs[..=i]).detail(format!("{:?} while typing {:?}", other, w)));
                                break;
                            }
                        };
                        dict_steps.fetch_add(1, Ordering::Relaxed);
                        match fixed_step_ref(&prev, &c.to_string(), &ctx.opts) {
                            RefOut::Text(exp) => {
                                if got != exp {
                                    report.add(
                                        Violation::new("C12", "ref-step-mismatch", &format!("dictionary-sweep:{}:after-{}", crate::bn::esc(&c.to_string()), prev.chars().last().map(|c| crate::bn::esc(&c.to_string())).unwrap_or("start".into())))
                                            .opts(&ctx.opts)
                                            .feat("pre", crate::bn::esc(&prev))
                                            .events(&evs[..=i])
                                            .detail(format!("typing the dictionary word {:?}: composition {:?} + key value {:?} gave {:?}, rule chain says {:?}", w, prev, c, got, exp)),
                                    );
                                }
                            }
                            RefOut::Unspecified(_) => {
                                if got == prev {
                                    report.add(Violation::new("C12", "key-swallowed", "key-swallowed:dictionary-sweep").opts(&ctx.opts).feat("pre", crate::bn::esc(&prev)).events(&evs[..=i]).detail(format!("typing {:?}: composition {:?} + key value {:?}: nothing happened", w, prev, c)));
                                }
                            }
                            RefOut::RephConservation => {}
                        }
                        prev = got;
                    }
                }
            },
            |_| (),
        );
        validated.fetch_add(dict_steps.load(Ordering::Relaxed), Ordering::Relaxed);
    }
    let st = total.lock().unwrap().clone();
    let mut ev = Evidence::new("C12", &report.tier, "model_checking");
    ev.set("states", st.states);
    ev.set("transitions", st.transitions);
    ev.set("traces_validated_against_impl", validated.load(Ordering::Relaxed));
    ev.set("closed", *closed_all.lock().unwrap());
    ev.set("cut_transitions", st.cut_transitions);
    ev.set("max_depth", st.max_depth);
    ev.set("max_composition_length", max_len);
    ev.set("settings", 16);
    ev.set("alphabet", json!(ALPHABET.iter().zip(values.iter()).map(|((c, a), v)| format!("{}{} -> {}", c, if *a { "+AltGr" } else { "" }, crate::bn::esc(v))).collect::<Vec<_>>()));
    ev.set("class_sweep_transitions", sweep.load(Ordering::Relaxed));
    ev.set("dictionary_sweep", json!({"words_typed": dict_words.load(Ordering::Relaxed), "key_steps_compared": dict_steps.load(Ordering::Relaxed), "longest_word_code_points": dict_longest.load(Ordering::Relaxed), "settings": 16, "layout": "Probhat"}));
    ev.set("unspecified_transitions", unspecified.load(Ordering::Relaxed));
    ev.set("reph_outside_grammar_conservation_only", reph_conservation_only.load(Ordering::Relaxed));
    ev.set("rule_hits", json!(*rule_hits.lock().unwrap()));
    ev.set("samples", samples.take());
    ev.set("exhaustive", *closed_all.lock().unwrap());
    ev.set("explanation", "explicit-state BFS over the real FixedMethod (states = full snapshot), one search per setting of {vowel, chandra, kar, reph}; every transition's returned text compared with the reference step()/backspace()");
    ev.assume("reference step() is the harness's reading of the statement; character classes by Unicode range; punctuation = ASCII punctuation");
    ev.assume("state restore uses the verif_set_composition hook; state identity is the full snapshot");
    ev
}
