//! C13 — old-style reph is moved in front of the final conjunct and loses nothing.
//!
//! State graph of the real fixed method over a 17-symbol alphabet (reph key included, so
//! texts that already contain a reph are reached too), under all 16 settings of
//! {auto vowel, auto chandrabindu, traditional joining, old vowel-sign order} with old reph
//! on and again with it off. The reph key is pressed in every state:
//!   * conservation on every state: result == p with U+09B0 U+09CD inserted at one position;
//!   * placement on states whose text matches the syllable grammar (fxref::reph_ref);
//!   * option off: result == p + value.

use crate::drv::{fixture, scratch_xdg, Ctx, Fail, Opts, Out};
use crate::fxgraph::{bfs, hist_events, GraphStats};
use crate::fxref::{is_single_insertion, reph_ref};
use crate::par::par_for;
use crate::props::c12::{key_ev, LayoutMap};
use crate::report::{Evidence, Report, Samples, Violation};
use serde_json::json;
use std::collections::HashSet;
use std::sync::atomic::{AtomicU64, Ordering};
use std::sync::Mutex;

const ALPHABET: &[(char, bool)] = &[
    ('k', true),  // reph (must be symbol 0)
    ('k', false), // ka
    ('f', false), // ta
    ('r', false), // ra
    ('Z', false), // ya
    ('a', false), // aa-kar
    ('i', false), // i-kar (left standing)
    ('v', false), // independent aa
    ('I', false), // independent i
    ('/', false), // hasanta
    ('>', false), // chandrabindu
    (',', false), // punctuation
    ('L', false), // anusvara
    ('1', false), // digit
    ('r', true),  // ro-fola
    ('z', true),  // zo-fola
    ('\\', false), // ZWNJ
];

pub fn run(report: &Report, thorough: bool) -> Evidence {
    let max_len = if thorough { 6 } else { 5 };
    let layout = fixture("layout_synth.json");
    let lm = LayoutMap::load(&layout);
    let alphabet: Vec<_> = ALPHABET.iter().map(|&(c, a)| key_ev(c, a)).collect();
    let reph_value = lm.value('k', true);
    assert_eq!(reph_value, crate::bn::REPH);
    let total = Mutex::new(GraphStats::default());
    let placement = AtomicU64::new(0);
    let conservation_only = AtomicU64::new(0);
    let option_off = AtomicU64::new(0);
    let moved = AtomicU64::new(0);
    let closed_all = Mutex::new(true);
    let distinct_texts: Mutex<HashSet<String>> = Mutex::new(HashSet::new());
    let samples = Samples::new(8);
    par_for(
        32,
        1,
        |w| scratch_xdg(&format!("c13-{}", w)),
        |xdg, setting| {
            let mut o = Opts::fixed(&layout, "", xdg);
            o.vowel = setting & 1 != 0;
            o.chandra = setting & 2 != 0;
            o.kar = setting & 4 != 0;
            o.karorder = setting & 8 != 0;
            o.reph = setting & 16 == 0;
            o.smart = false;
            let mut ctx = Ctx::new(&o).expect("context");
            ctx.with_pre = false;
            let mut local_texts: HashSet<String> = HashSet::new();
            let stats = bfs(&mut ctx, &alphabet, max_len, 64, |ctx, step| {
                let viol = |kind: &str, class: String, detail: String| {
                    let mut evs = hist_events(&alphabet, step.hist);
                    evs.push(step.ev.clone());
                    report.add(
                        Violation::new("C13", kind, &class)
                            .opts(&ctx.opts)
                            .feat("pre", crate::bn::esc(&step.pre.buf))
                            .feat("event", step.ev.short())
                            .events(&evs)
                            .detail(detail),
                    );
                };
                let rend = match step.out {
                    Ok(Out::Sugg(r)) => r,
                    Ok(Out::Unit) => unreachable!(),
                    Err(Fail::CallPanic(p)) => {
                        viol("panic", format!("panic:{}", p.short()), format!("call panicked: {} (line {})", p.short(), p.line));
                        return;
                    }
                    Err(f) => {
                        viol("read-failure", "read-failure".into(), format!("{:?}", f));
                        return;
                    }
                };
                if step.sym != 0 {
                    return; // only the reph key is judged here; other keys build the graph
                }
                let p = &step.pre.buf;
                let got = rend.text();
                if step.post.pending != step.pre.pending {
                    viol("pending-changed", "pending-changed".into(), format!("reph key changed the waiting vowel sign: {:?} -> {:?}", step.pre, step.post));
                }
                if !ctx.opts.reph {
                    option_off.fetch_add(1, Ordering::Relaxed);
                    if got != format!("{}{}", p, reph_value) {
                        viol("reph-off-not-appended", "reph-off".into(), format!("option off: {:?} + reph key gave {:?}", p, got));
                    }
                    return;
                }
                if !is_single_insertion(p, &got, crate::bn::REPH) {
                    viol("reph-conservation", "reph-conservation".into(), format!("reph on {:?} gave {:?}: not a single insertion of the reph", p, got));
                    return;
                }
                match reph_ref(p) {
                    Some(exp) => {
                        placement.fetch_add(1, Ordering::Relaxed);
                        local_texts.insert(p.clone());
                        if got != exp {
                            let tail: String = {
                                let cs: Vec<char> = p.chars().collect();
                                cs[cs.len().saturating_sub(3)..].iter().map(|&c| {
                                    if crate::bn::is_consonant(c) { 'C' } else if crate::bn::is_indep_vowel(c) { 'I' } else if crate::bn::is_sign(c) { 'V' } else if c == crate::bn::HASANTA { 'H' } else if c == crate::bn::CHANDRA { 'N' } else { 'o' }
                                }).collect()
                            };
                            viol("reph-placement", format!("placement:tail-{}", tail), format!("reph on {:?} gave {:?}, expected {:?}", p, got, exp));
                        } else if !got.ends_with(crate::bn::REPH) {
                            moved.fetch_add(1, Ordering::Relaxed);
                            samples.offer(|| json!({"flags": ctx.opts.flags(), "p": p, "after_reph": got}));
                        }
                    }
                    None => {
                        conservation_only.fetch_add(1, Ordering::Relaxed);
                    }
                }
            });
            total.lock().unwrap().merge(&stats);
            if !stats.closed {
                *closed_all.lock().unwrap() = false;
            }
            distinct_texts.lock().unwrap().extend(local_texts);
        },
        |_| (),
    );
    // ---- class sweep (one step, states set through the hook): the graph above has two consonants, two
    // signs and two independent vowels as representatives; here EVERY consonant x EVERY vowel sign and
    // independent vowel (x chandrabindu, x a two-member conjunct) gets the reph key.
    // ---- option sweep: the reph rule must not depend on any OTHER option: all 2^6 settings of
    // {English, suggestions (no database), number pad, ANSI, smart quotes, traditional joining}.
    let sweep = AtomicU64::new(0);
    {
        let consonants: Vec<char> = ('\u{0995}'..='\u{09B9}').filter(|c| crate::bn::is_consonant(*c)).chain(['\u{09CE}', '\u{09DC}', '\u{09DD}', '\u{09DF}']).collect();
        let vowels: Vec<char> = ('\u{0985}'..='\u{0994}').filter(|c| crate::bn::is_indep_vowel(*c)).chain(('\u{09BE}'..='\u{09CC}').filter(|c| crate::bn::is_common_sign(*c))).collect();
        let mut texts: Vec<String> = vec![];
        for &c in &consonants {
            texts.push(c.to_string());
            texts.push(format!("\u{0995}{}", c));
            texts.push(format!("{}\u{0981}", c));
            texts.push(format!("\u{0995}\u{09CD}{}", c));
            for &v in &vowels {
                texts.push(format!("{}{}", c, v));
                texts.push(format!("{}{}\u{0981}", c, v));
                texts.push(format!("\u{0986}{}\u{09CD}\u{09A4}{}", c, v));
            }
        }
        // long final syllables (the graph's length bound stops at five or six code points): conjuncts of three and four
        // consonants, with a vowel sign and a chandrabindu, behind nothing / a consonant / a syllable
        {
            let cs = ['\u{0995}', '\u{09B7}', '\u{09AE}', '\u{09A4}', '\u{09A8}', '\u{09B8}'];
            let mut conj: Vec<String> = vec![];
            for &a in &cs {
                for &b in &cs {
                    for &c in &cs {
                        conj.push(format!("{}\u{09CD}{}\u{09CD}{}", a, b, c));
                        for &d in &cs[..3] {
                            conj.push(format!("{}\u{09CD}{}\u{09CD}{}\u{09CD}{}", a, b, c, d));
                        }
                    }
                }
            }
            for pre in ["", "\u{09B2}", "\u{0995}\u{09BE}"] {
                for cj in &conj {
                    for v in ["", "\u{09BE}", "\u{09BF}", "\u{09C0}", "\u{09CB}"] {
                        for cb in ["", "\u{0981}"] {
                            let t = format!("{}{}{}{}", pre, cj, v, cb);
                            if reph_ref(&t).is_some() {
                                texts.push(t);
                            }
                        }
                    }
                }
            }
        }
        par_for(
            64,
            1,
            |w| scratch_xdg(&format!("c13s-{}", w)),
            |xdg, bits| {
                let mut o = Opts::fixed(&layout, "", xdg);
                o.reph = true;
                o.english = bits & 1 != 0;
                o.fsugg = bits & 2 != 0;
                o.numpad = bits & 4 != 0;
                o.ansi = bits & 8 != 0;
                o.smart = bits & 16 != 0;
                o.kar = bits & 32 != 0;
                // every second of these contexts reaches its options (old reph included) through update-engine from a context
                // created with every option inverted; every fourth is built on a used Config object
                o.via_update = bits % 2 == 1;
                o.churn = bits % 4 == 2;
                let mut ctx = Ctx::new(&o).expect("context");
                ctx.with_pre = false;
                let reph = &alphabet[0];
                for p in &texts {
                    crate::fxgraph::restore(&ctx, &crate::fxgraph::FxState { buf: p.clone(), typed: String::new(), pending: 0 });
                    sweep.fetch_add(1, Ordering::Relaxed);
                    let got = match ctx.apply(reph) {
                        Ok(Out::Sugg(r)) => r.text(),
                        other => {
                            report.add(Violation::new("C13", "panic", "panic:class-sweep").opts(&o).feat("pre", crate::bn::esc(p)).origin(p, "", 0).events(&[reph.clone()]).detail(format!("reph on {:?} (state set directly): {:?}", p, other)));
                            continue;
                        }
                    };
                    let exp = reph_ref(p).expect("sweep texts are well formed");
                    if got != exp {
                        let last = p.chars().last().unwrap();
                        report.add(
                            Violation::new("C13", "reph-placement", &format!("placement:sweep:{}", if crate::bn::is_consonant(last) { "C".to_string() } else { crate::bn::esc(&last.to_string()) }))
                                .opts(&o)
                                .feat("pre", crate::bn::esc(p))
                                .origin(p, "", 0)
                                .events(&[reph.clone()])
                                .detail(format!("reph on {:?} (state set directly) gave {:?}, expected {:?}", p, got, exp)),
                        );
                    }
                }
            },
            |_| (),
        );
    }
    let st = total.lock().unwrap().clone();
    let mut ev = Evidence::new("C13", &report.tier, "model_checking");
    ev.set("states", st.states);
    ev.set("transitions", st.transitions);
    ev.set(
        "traces_validated_against_impl",
        placement.load(Ordering::Relaxed) + conservation_only.load(Ordering::Relaxed) + option_off.load(Ordering::Relaxed),
    );
    ev.set("placement_checked", placement.load(Ordering::Relaxed));
    ev.set("placement_checked_reph_actually_moved", moved.load(Ordering::Relaxed));
    ev.set("distinct_well_formed_texts", distinct_texts.lock().unwrap().len());
    ev.set("conservation_only_outside_grammar", conservation_only.load(Ordering::Relaxed));
    ev.set("class_and_option_sweep_reph_presses", sweep.load(Ordering::Relaxed));
    ev.set("option_off_checked", option_off.load(Ordering::Relaxed));
    ev.set("closed", *closed_all.lock().unwrap());
    ev.set("exhaustive", *closed_all.lock().unwrap());
    ev.set("cut_transitions", st.cut_transitions);
    ev.set("max_depth", st.max_depth);
    ev.set("max_composition_length", max_len);
    ev.set("settings", 32);
    ev.set("alphabet", json!(ALPHABET.iter().map(|(c, a)| format!("{}{} -> {}", c, if *a { "+AltGr" } else { "" }, crate::bn::esc(&lm.value(*c, *a)))).collect::<Vec<_>>()));
    ev.set("samples", samples.take());
    ev.assume("syllable grammar and placement rule are the harness's reading of the statement (fxref::reph_ref); V is a vowel sign or an independent vowel");
    ev.assume("texts with a dangling hasanta/sign/chandrabindu, joiners or rare signs are outside the grammar: conservation only");
    ev
}
