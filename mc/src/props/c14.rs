//! C14 — old vowel-sign order typing yields the same text as Unicode-order typing.
//!
//! Differential, no expected value: every word of <= N syllable units is typed in typewriter
//! order into a context with the option ON and in Unicode order into a twin context with the
//! option OFF (all 16 settings of the other helpers); the composed texts must be equal.
//! At every point where a sign waits for its consonant: it is not shown, the session is
//! ongoing, one backspace discards it.

use crate::drv::{fixture, scratch_xdg, Ctx, Ev, Fail, Opts, Rend};
use crate::fxgraph::{read_state, restore, FxState};
use crate::par::par_for;
use crate::props::c12::key_ev;
use crate::report::{Evidence, Report, Samples, Violation};
use serde_json::json;
use std::collections::HashSet;
use std::sync::atomic::{AtomicU64, Ordering};
use std::sync::Mutex;

#[derive(Clone, Debug)]
struct Unit {
    /// keys in typewriter order, old reph ON / OFF
    tw_reph_on: Vec<Ev>,
    tw_reph_off: Vec<Ev>,
    /// keys in Unicode order, old reph ON / OFF
    un_reph_on: Vec<Ev>,
    un_reph_off: Vec<Ev>,
    /// index in the typewriter sequence after which a sign is waiting (if any)
    waiting_after: Option<usize>,
    label: String,
    /// coarse class for grouping violations: conjunct shape + whether a sign is typed first
    class: String,
}

fn k(c: char) -> Ev {
    key_ev(c, false)
}
fn ag(c: char) -> Ev {
    key_ev(c, true)
}

fn build_units(full: bool) -> Vec<Unit> {
    // bases: a consonant key; (full set) a conjunct typed by ONE key (AltGr+K = kkha, a value of three code points with an
    // inner hasanta) and a key whose value ends in a hasanta followed by a consonant (AltGr+c = ka + hasanta, then ta)
    let bases: Vec<(Vec<Ev>, &str)> = if full {
        vec![(vec![k('k')], "ka"), (vec![k('r')], "ra"), (vec![ag('K')], "kkha-by-one-key"), (vec![ag('c'), k('f')], "ka+H(one key)+ta")]
    } else {
        vec![(vec![k('k')], "ka")]
    };
    // joins: (keys, label)
    let joins: Vec<(Vec<Ev>, &str)> = vec![
        (vec![k('/'), k('f')], "+H+ta"),
        (vec![ag('r')], "+rofola"),
        (vec![ag('z')], "+zofola"),
        (vec![k('/'), k('r')], "+H+ra"),
    ];
    let mut join_seqs: Vec<(Vec<Ev>, String)> = vec![(vec![], String::new())];
    for (j, l) in &joins {
        join_seqs.push((j.clone(), l.to_string()));
    }
    if full {
        for (j1, l1) in &joins {
            for (j2, l2) in &joins {
                let mut s = j1.clone();
                s.extend(j2.clone());
                join_seqs.push((s, format!("{}{}", l1, l2)));
            }
        }
    }
    // signs: (pre keys typewriter, post keys typewriter, unicode keys, label)
    let signs: Vec<(Vec<Ev>, Vec<Ev>, Vec<Ev>, &str)> = vec![
        (vec![], vec![], vec![], ""),
        (vec![], vec![k('a')], vec![k('a')], "+aa"),
        (vec![k('i')], vec![], vec![k('i')], "+i"),
        (vec![k('[')], vec![], vec![k('[')], "+e"),
        (vec![k('{')], vec![], vec![k('{')], "+oi"),
        (vec![k('[')], vec![k('a')], vec![k(']')], "+o(e..aa)"),
        (vec![k('[')], vec![k('}')], vec![k('}')], "+ou(e..ou)"),
        (vec![k('[')], vec![ag(']')], vec![k('}')], "+ou(e..mark)"),
        (vec![], vec![k('u')], vec![k('u')], "+u"),
    ];
    let mut units = vec![];
    for (bi, (b, bl)) in bases.iter().enumerate() {
        for (js, jl) in &join_seqs {
            // the one-key conjunct bases come without further joins (they are about the value, not the conjunct grammar)
            if bi >= 2 && !js.is_empty() {
                continue;
            }
            for (pre, post, uni, sl) in &signs {
                for chandra in [false, true] {
                    for reph in [false, true] {
                        let mut cluster = b.clone();
                        cluster.extend(js.clone());
                        let tail: Vec<Ev> = if chandra { vec![k('>')] } else { vec![] };
                        let mk = |sign_first: &Vec<Ev>, sign_last: &Vec<Ev>, reph_on: bool| -> Vec<Ev> {
                            let mut s = sign_first.clone();
                            if reph && !reph_on {
                                s.push(ag('k')); // reph typed before its consonant
                            }
                            s.extend(cluster.clone());
                            if reph && reph_on {
                                s.push(ag('k')); // old style: reph typed after the conjunct
                            }
                            s.extend(sign_last.clone());
                            s.extend(tail.clone());
                            s
                        };
                        let none: Vec<Ev> = vec![];
                        units.push(Unit {
                            tw_reph_on: mk(pre, post, true),
                            tw_reph_off: mk(pre, post, false),
                            un_reph_on: mk(&none, uni, true),
                            un_reph_off: mk(&none, uni, false),
                            waiting_after: if pre.is_empty() { None } else { Some(0) },
                            label: format!("{}{}{}{}{}", bl, jl, sl, if chandra { "+chandra" } else { "" }, if reph { "+reph" } else { "" }),
                            class: format!("{}{}:{}", bl, jl, if pre.is_empty() { "no-sign-first" } else { "sign-first" }),
                        });
                    }
                }
            }
        }
    }
    for (c, l) in [('v', "indep-aa"), (',', "comma"), ('L', "anusvara")] {
        units.push(Unit {
            tw_reph_on: vec![k(c)],
            tw_reph_off: vec![k(c)],
            un_reph_on: vec![k(c)],
            un_reph_off: vec![k(c)],
            waiting_after: None,
            label: l.into(),
            class: l.into(),
        });
    }
    units
}

/// Independent vowels typed with the SIGN keys - the same keys in both orders: a sign key where automatic vowel
/// forming applies (`auto_vowel` units), a left-standing sign key followed by another sign key, and hasanta + sign key
/// (the hasanta rule makes the independent vowel) after whatever the previous unit left.
fn build_vowel_units() -> Vec<(Unit, bool)> {
    let plain = |keys: Vec<Ev>, label: String, waiting: Option<usize>| Unit {
        tw_reph_on: keys.clone(),
        tw_reph_off: keys.clone(),
        un_reph_on: keys.clone(),
        un_reph_off: keys,
        waiting_after: waiting,
        class: label.split(':').next().unwrap().to_string(),
        label,
    };
    let right = ['a', 'u', ']', '}', 'e', 'w'];
    let left = ['i', '[', '{'];
    let mut v = vec![];
    for s in right {
        v.push((plain(vec![k(s)], format!("vowel-by-sign-key:{}", s), None), true));
    }
    for l in left {
        for s in right.iter() {
            // e + aa / e + ou are the two-part typings of o / ou: not a pair of vowels in typewriter order
            if l == '[' && (*s == 'a' || *s == '}') {
                continue;
            }
            // `[` + `a` etc. are the two-part typings of the statement when a consonant stands between them; without one
            // they are still one key history typed identically in both orders
            v.push((plain(vec![k(l), k(*s)], format!("left-sign-then-sign:{}{}", l, s), Some(0)), true));
        }
    }
    for s in right.iter().chain(left.iter()) {
        v.push((plain(vec![k('/'), k(*s)], format!("hasanta-then-sign:{}", s), None), false));
        v.push((plain(vec![k('/'), k(*s), k('k')], format!("hasanta-then-sign-then-consonant:{}", s), None), false));
    }
    v
}

struct Walk<'a> {
    a: Ctx, // option on, typewriter order
    b: Ctx, // option off, Unicode order
    units: &'a [Unit],
    report: &'a Report,
    words: u64,
    keys: u64,
    waiting_checks: u64,
    texts: HashSet<u64>,
    samples: &'a Samples,
}

fn h64(s: &str) -> u64 {
    let mut h: u64 = 0xcbf29ce484222325;
    for b in s.bytes() {
        h = (h ^ b as u64).wrapping_mul(0x100000001b3);
    }
    h
}

impl<'a> Walk<'a> {
    fn viol(&self, kind: &str, class: String, path: &[usize], extra_a: &[Ev], detail: String) {
        let reph = self.a.opts.reph;
        let mut evs: Vec<Ev> = vec![];
        for &u in path {
            evs.extend(if reph { self.units[u].tw_reph_on.clone() } else { self.units[u].tw_reph_off.clone() });
        }
        evs.extend(extra_a.to_vec());
        self.report.add(
            Violation::new("C14", kind, &class)
                .opts(&self.a.opts)
                .feat("units", path.iter().map(|&u| self.units[u].label.clone()).collect::<Vec<_>>().join(" | "))
                .events(&evs)
                .detail(detail),
        );
    }

    /// type unit `u` on both contexts starting from (sa, sb); returns false when aborted
    fn type_unit(&mut self, path: &[usize]) -> bool {
        let u = *path.last().unwrap();
        let unit = self.units[u].clone();
        let reph = self.a.opts.reph;
        let tw = if reph { &unit.tw_reph_on } else { &unit.tw_reph_off };
        let un = if reph { &unit.un_reph_on } else { &unit.un_reph_off };
        let mut text_before = read_state(&self.a).buf;
        for (i, ev) in tw.iter().enumerate() {
            self.keys += 1;
            let r = match self.a.apply(ev) {
                Ok(crate::drv::Out::Sugg(r)) => r,
                Ok(_) => unreachable!(),
                Err(Fail::CallPanic(p)) => {
                    self.viol("panic", format!("panic:{}", p.short()), path, &tw[..=i], format!("typewriter-order key panicked: {}", p.short()));
                    return false;
                }
                Err(f) => {
                    self.viol("read-failure", "read-failure".into(), path, &tw[..=i], format!("{:?}", f));
                    return false;
                }
            };
            if unit.waiting_after == Some(i) {
                // the sign is waiting for its consonant
                self.waiting_checks += 1;
                let shown = r.text();
                if shown != text_before {
                    self.viol("waiting-sign-shown", "waiting-sign-shown".into(), path, &tw[..=i], format!("text before the sign {:?}, shown after it {:?}", text_before, shown));
                }
                if !self.a.ongoing() {
                    self.viol("waiting-sign-no-session", "waiting-sign-no-session".into(), path, &tw[..=i], "a waiting sign must count as an ongoing session".into());
                }
                if read_state(&self.a).pending == 0 {
                    // not waiting at all: the differential comparison will tell whether that matters
                } else {
                    // one backspace discards it ...
                    let saved = read_state(&self.a);
                    match self.a.bs() {
                        Ok(rb) => {
                            let after = read_state(&self.a);
                            let ok_text = rb.text() == text_before && (text_before.is_empty() == matches!(rb, Rend::Empty));
                            if !ok_text || after.pending != 0 || after.buf != text_before || self.a.ongoing() != !text_before.is_empty() {
                                let mut e = tw[..=i].to_vec();
                                e.push(Ev::Bs);
                                self.viol("waiting-sign-backspace", "waiting-sign-backspace".into(), path, &e, format!("backspace on a waiting sign: returned {:?}, state {:?}, text before the sign {:?}", rb.to_json(), after, text_before));
                            }
                        }
                        Err(f) => {
                            let mut e = tw[..=i].to_vec();
                            e.push(Ev::Bs);
                            self.viol("panic", "panic:backspace-on-waiting-sign".into(), path, &e, format!("{:?}", f));
                        }
                    }
                    restore(&self.a, &saved);
                }
            }
            text_before = read_state(&self.a).buf;
        }
        for (i, ev) in un.iter().enumerate() {
            self.keys += 1;
            if let Err(f) = self.b.apply(ev) {
                self.viol("panic", "panic:unicode-order".into(), path, &un[..=i], format!("Unicode-order twin failed: {:?}", f));
                return false;
            }
        }
        true
    }

    fn rec(&mut self, path: &mut Vec<usize>, depth_left: usize) {
        let sa = read_state(&self.a);
        let sb = read_state(&self.b);
        for u in 0..self.units.len() {
            restore(&self.a, &sa);
            restore(&self.b, &sb);
            path.push(u);
            if self.type_unit(path) {
                self.words += 1;
                let ta = read_state(&self.a);
                let tb = read_state(&self.b);
                self.texts.insert(h64(&ta.buf));
                if ta.buf != tb.buf || ta.pending != 0 {
                    let cls = format!("diff:{}", self.units[u].class);
                    self.viol(
                        "order-mismatch",
                        cls,
                        path,
                        &[],
                        format!("typewriter order with the option on gives {:?} (waiting sign {}), Unicode order with it off gives {:?}", ta.buf, ta.pending, tb.buf),
                    );
                } else {
                    if path.len() == 2 && self.units[u].waiting_after.is_some() {
                        let labels: Vec<String> = path.iter().map(|&x| self.units[x].label.clone()).collect();
                        self.samples.offer(|| json!({"flags": self.a.opts.flags(), "units": labels, "text": ta.buf}));
                    }
                    if depth_left > 1 {
                        self.rec(path, depth_left - 1);
                    }
                }
            }
            path.pop();
        }
    }
}

pub fn run(report: &Report, thorough: bool) -> Evidence {
    let layout = fixture("layout_synth.json");
    // quick: full unit set, words of <= 2 units. thorough: additionally reduced unit set, <= 3 units.
    let full_units = build_units(true);
    let small_units = build_units(false);
    let words = AtomicU64::new(0);
    let keys = AtomicU64::new(0);
    let waiting = AtomicU64::new(0);
    let texts: Mutex<HashSet<u64>> = Mutex::new(HashSet::new());
    let samples = Samples::new(8);
    // work items: (setting, first unit index, plan)
    let mut items: Vec<(u32, usize, u8)> = vec![];
    for setting in 0..16u32 {
        for u in 0..full_units.len() {
            items.push((setting, u, 0));
        }
        if thorough {
            for u in 0..small_units.len() {
                items.push((setting, u, 1));
            }
        }
    }
    // option sweep (plan 2): one-unit words over the reduced unit set with each single one (and all) of the options
    // the equivalence must not depend on switched on {English, suggestions (no database), number pad, ANSI, smart quotes},
    // x the 16 helper settings
    for setting in 0..16u32 {
        for other in [1u32, 2, 4, 8, 16, 31] {
            for u in 0..small_units.len() {
                items.push((setting | other << 4, u, 2));
            }
        }
    }
    // plan 3: [nothing | one unit of the reduced set] + one vowel unit (see build_vowel_units)
    let vowel_units = build_vowel_units();
    let mut ext_units: Vec<Unit> = small_units.clone();
    ext_units.extend(vowel_units.iter().map(|(u, _)| u.clone()));
    for setting in 0..16u32 {
        items.push((setting, usize::MAX, 3));
        for u in 0..small_units.len() {
            items.push((setting, u, 3));
        }
    }
    par_for(
        items.len(),
        4,
        |w| scratch_xdg(&format!("c14-{}", w)),
        |xdg, idx| {
            let (setting, first, plan) = items[idx];
            let units: &[Unit] = if plan == 0 { &full_units } else if plan == 3 { &ext_units } else { &small_units };
            let depth = if plan == 0 { 2 } else if plan == 1 { 3 } else { 1 };
            let mut o = Opts::fixed(&layout, "", xdg);
            o.vowel = setting & 1 != 0;
            o.chandra = setting & 2 != 0;
            o.kar = setting & 4 != 0;
            o.reph = setting & 8 != 0;
            o.smart = false;
            if plan == 2 {
                let other = setting >> 4;
                o.english = other & 1 != 0;
                o.fsugg = other & 2 != 0;
                o.numpad = other & 4 != 0;
                o.ansi = other & 8 != 0;
                o.smart = other & 16 != 0;
            }
            let mut oa = o.clone();
            oa.karorder = true;
            if plan == 2 {
                // the other-options plan: the context with the option on is a re-configured one for every second setting
                // (created with every option inverted, old vowel-sign order included), on a used Config object for every fourth
                oa.via_update = (setting >> 4) % 2 == 1;
                oa.churn = (setting >> 4) % 4 == 2;
            }
            let mut a = Ctx::new(&oa).expect("ctx");
            let mut b = Ctx::new(&o).expect("ctx");
            a.with_pre = false;
            b.with_pre = false;
            let mut w = Walk { a, b, units, report, words: 0, keys: 0, waiting_checks: 0, texts: HashSet::new(), samples: &samples };
            restore(&w.a, &FxState::idle());
            restore(&w.b, &FxState::idle());
            if plan == 3 {
                for (vi, (_, needs_auto_vowel)) in vowel_units.iter().enumerate() {
                    if *needs_auto_vowel && !o.vowel {
                        continue;
                    }
                    restore(&w.a, &FxState::idle());
                    restore(&w.b, &FxState::idle());
                    let mut path: Vec<usize> = vec![];
                    if first != usize::MAX {
                        path.push(first);
                        if !w.type_unit(&path) {
                            continue;
                        }
                        // automatic vowel forming applies at the start, after a vowel (sign) and after punctuation only
                        if *needs_auto_vowel {
                            let last = read_state(&w.b).buf.chars().last();
                            let mut applies = last.map(|c| crate::bn::is_sign(c) || crate::bn::is_indep_vowel(c) || c == ',').unwrap_or(true);
                            // after a syllable with e-kar the keys aa / ou are the second half of o / ou in typewriter order
                            let first_key = match vowel_units[vi].0.tw_reph_on.last().unwrap() {
                                Ev::Key { code, .. } => crate::keys::by_code(*code).and_then(|k| k.ch),
                                _ => None,
                            };
                            if last == Some('\u{09C7}') && matches!(first_key, Some('a') | Some('}')) {
                                applies = false;
                            }
                            if !applies {
                                continue;
                            }
                        }
                    }
                    path.push(small_units.len() + vi);
                    if w.type_unit(&path) {
                        w.words += 1;
                        let ta = read_state(&w.a);
                        let tb = read_state(&w.b);
                        w.texts.insert(h64(&ta.buf));
                        if ta.buf != tb.buf || ta.pending != 0 {
                            let u = *path.last().unwrap();
                            w.viol("order-mismatch", format!("diff:{}", units[u].class), &path, &[], format!("typewriter order with the option on gives {:?} (waiting sign {}), Unicode order with it off gives {:?}", ta.buf, ta.pending, tb.buf));
                        }
                    }
                }
                words.fetch_add(w.words, Ordering::Relaxed);
                keys.fetch_add(w.keys, Ordering::Relaxed);
                waiting.fetch_add(w.waiting_checks, Ordering::Relaxed);
                texts.lock().unwrap().extend(w.texts);
                return;
            }
            let mut path = vec![first];
            if w.type_unit(&path) {
                w.words += 1;
                let ta = read_state(&w.a);
                let tb = read_state(&w.b);
                if ta.buf != tb.buf || ta.pending != 0 {
                    w.viol("order-mismatch", format!("diff:{}", units[first].class), &path, &[], format!("typewriter order gives {:?} (waiting sign {}), Unicode order gives {:?}", ta.buf, ta.pending, tb.buf));
                } else {
                    if depth > 1 {
                        w.rec(&mut path, depth - 1);
                    }
                }
            }
            words.fetch_add(w.words, Ordering::Relaxed);
            keys.fetch_add(w.keys, Ordering::Relaxed);
            waiting.fetch_add(w.waiting_checks, Ordering::Relaxed);
            texts.lock().unwrap().extend(w.texts);
        },
        |_| (),
    );
    // ---- plan 4: consonant class sweep on the REAL layout (Probhat). The unit sets above have two or three bases; here EVERY key of
    // the layout (both planes) whose value is one consonant - the nukta letters and khanda-ta included - carries each left-standing
    // sign and each two-part sign, alone and as the second syllable of a word, typewriter order with the option on against
    // Unicode order with it off, under all 16 settings of the other helpers.
    let sweep_words = AtomicU64::new(0);
    let sweep_consonants: usize;
    {
        let probhat = crate::drv::probhat();
        let v: serde_json::Value = serde_json::from_str(&std::fs::read_to_string(&probhat).expect("Probhat")).expect("json");
        let lay = v["layout"].as_object().expect("layout");
        let mut cons: Vec<(Ev, char)> = vec![];
        for kd in crate::keys::KEYS.iter().filter(|k| !k.numpad) {
            for (plane, m) in [("Normal", 0u8), ("AltGr", 2u8)] {
                if let Some(val) = lay.get(&format!("Key_{}_{}", kd.entry.unwrap(), plane)).and_then(|x| x.as_str()) {
                    let mut cs = val.chars();
                    if let (Some(c), None) = (cs.next(), cs.next()) {
                        if (crate::bn::is_consonant(c) || "\u{09CE}\u{09DC}\u{09DD}\u{09DF}".contains(c)) && !cons.iter().any(|(_, x)| *x == c) {
                            cons.push((Ev::Key { code: kd.code, m, sel: 0 }, c));
                        }
                    }
                }
            }
        }
        sweep_consonants = cons.len();
        let inv = crate::data::InverseLayout::load(&probhat);
        let key_of = |c: char| inv.key(c).cloned().expect("sign key in Probhat");
        // (typewriter: before the consonant, after it; Unicode: after the consonant)
        let signs: Vec<(Vec<Ev>, Vec<Ev>, Vec<Ev>, &str)> = vec![
            (vec![key_of('\u{09BF}')], vec![], vec![key_of('\u{09BF}')], "i"),
            (vec![key_of('\u{09C7}')], vec![], vec![key_of('\u{09C7}')], "e"),
            (vec![key_of('\u{09C8}')], vec![], vec![key_of('\u{09C8}')], "oi"),
            (vec![key_of('\u{09C7}')], vec![key_of('\u{09BE}')], vec![key_of('\u{09CB}')], "o(e..aa)"),
            (vec![key_of('\u{09C7}')], vec![key_of('\u{09CC}')], vec![key_of('\u{09CC}')], "ou(e..ou)"),
        ];
        let prefixes: Vec<Vec<Ev>> = vec![vec![], vec![key_of('\u{09AC}'), key_of('\u{09BE}')]];
        par_for(
            16,
            1,
            |w| scratch_xdg(&format!("c14p4-{}", w)),
            |xdg, setting| {
                let mut o = Opts::fixed(&probhat, "", xdg);
                o.vowel = setting & 1 != 0;
                o.chandra = setting & 2 != 0;
                o.kar = setting & 4 != 0;
                o.reph = setting & 8 != 0;
                o.smart = false;
                let mut oa = o.clone();
                oa.karorder = true;
                let mut a = Ctx::new(&oa).expect("ctx");
                let mut b = Ctx::new(&o).expect("ctx");
                a.with_pre = false;
                b.with_pre = false;
                for (ck, c) in &cons {
                    for (pre, post, uni, label) in &signs {
                        for pf in &prefixes {
                            let mut tw: Vec<Ev> = pf.clone();
                            tw.extend(pre.iter().cloned());
                            tw.push(ck.clone());
                            tw.extend(post.iter().cloned());
                            let mut un: Vec<Ev> = pf.clone();
                            un.push(ck.clone());
                            un.extend(uni.iter().cloned());
                            let _ = a.apply(&Ev::Finish);
                            let _ = b.apply(&Ev::Finish);
                            let mut ok = true;
                            for e in &tw {
                                if a.apply(e).is_err() {
                                    ok = false;
                                }
                            }
                            for e in &un {
                                if b.apply(e).is_err() {
                                    ok = false;
                                }
                            }
                            if !ok {
                                continue; // a failing call is C01's business
                            }
                            sweep_words.fetch_add(1, Ordering::Relaxed);
                            let ta = read_state(&a);
                            let tb = read_state(&b);
                            if ta.buf != tb.buf || ta.pending != 0 {
                                report.add(
                                    Violation::new("C14", "order-mismatch", &format!("consonant-sweep:{}:{}", crate::bn::esc(&c.to_string()), label))
                                        .opts(&oa)
                                        .events(&tw)
                                        .feat("consonant", crate::bn::esc(&c.to_string()))
                                        .detail(format!("consonant {:?} with sign {}: typewriter order with the option on gives {:?} (waiting sign {}), Unicode order with it off gives {:?}", c, label, ta.buf, ta.pending, tb.buf)),
                                );
                            }
                        }
                    }
                }
            },
            |_| (),
        );
    }
    let mut ev = Evidence::new("C14", &report.tier, "model_checking");
    let nwords = words.load(Ordering::Relaxed);
    ev.set("states", texts.lock().unwrap().len().max(1));
    ev.set("transitions", keys.load(Ordering::Relaxed).max(1));
    ev.set("traces_validated_against_impl", nwords);
    ev.set("words_compared", nwords);
    ev.set("waiting_sign_points_checked", waiting.load(Ordering::Relaxed));
    ev.set("consonant_class_sweep", json!({"layout": "Probhat", "consonants": sweep_consonants, "sign_typings": 5, "positions": 2, "settings": 16, "words_compared": sweep_words.load(Ordering::Relaxed)}));
    ev.set("unit_set_full", full_units.len());
    ev.set("unit_set_reduced", small_units.len());
    ev.set("vowel_by_sign_key_units", vowel_units.len());
    ev.set("max_units_full_set", 2);
    ev.set("max_units_reduced_set", if thorough { 3 } else { 0 });
    ev.set("settings", 16);
    ev.set("exhaustive", true);
    ev.set("explanation", "all words of <= 2 units over the full unit set (and <= 3 units over the reduced set in the thorough tier) typed into paired real contexts; states = distinct composed texts seen, transitions = real key events, traces validated = words whose two typings were compared");
    ev.set("samples", samples.take());
    ev.set("unit_examples", json!(full_units.iter().step_by(97).map(|u| u.label.clone()).collect::<Vec<_>>()));
    ev.assume("typewriter order = left-standing sign first, then the whole conjunct, then the right part (aa / ou / AU length mark), then chandrabindu; old-style reph after the conjunct when that option is on, before it otherwise");
    ev
}
