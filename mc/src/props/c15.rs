//! C15 — fixed-layout suggestions are prefix completions of what was typed.
//!
//! Every prefix of every dictionary word of the enumerated sub-space is typed through Probhat
//! (inverse layout map built by the harness) into a real context with suggestions on; every
//! returned list is judged against the dictionary JSON read by the harness.
//! quick: every word of the 25 smallest first-letter tables and every word of <= 4 code points
//! of the 22 large ones; thorough: all 159 426 words.

use crate::avro::split_ref;
use crate::data::{Dict, InverseLayout};
use crate::drv::{probhat, real_db, scratch_xdg, Ctx, Ev, Opts, Out, Rend};
use crate::fxgraph::{read_state, restore, FxState};
use crate::par::par_for;
use crate::props::c01::fail_violation;
use crate::report::{Evidence, Report, Samples, Violation};
use serde_json::json;
use std::collections::{BTreeMap, HashSet};
use std::sync::atomic::{AtomicU64, Ordering};

pub fn emoji_set() -> HashSet<String> {
    let mut s = HashSet::new();
    for v in emojicon::internal::bn_emojis().values() {
        for e in v.iter() {
            s.insert(e.to_string());
        }
    }
    for v in emojicon::internal::emojis().values() {
        for e in v.iter() {
            s.insert(e.to_string());
        }
    }
    for e in emojicon::internal::emoticons().values() {
        s.insert(e.to_string());
    }
    s
}

#[derive(Default)]
struct Trie {
    children: BTreeMap<char, Trie>,
}
impl Trie {
    fn insert(&mut self, w: &str) {
        let mut t = self;
        for c in w.chars() {
            t = t.children.entry(c).or_default();
        }
    }
    fn count(&self) -> usize {
        self.children.values().map(|c| 1 + c.count()).sum()
    }
}

fn curl_open(s: &str) -> String {
    s.chars().map(|c| match c { '\'' => '\u{2018}', '"' => '\u{201C}', c => c }).collect()
}
fn curl_close(s: &str) -> String {
    s.chars().map(|c| match c { '\'' => '\u{2019}', '"' => '\u{201D}', c => c }).collect()
}
fn strip_zwnj(s: &str) -> String {
    s.chars().filter(|&c| c != crate::bn::ZWNJ).collect()
}

/// The raw key text of a key history, from the harness's own key table: the characters of the keys in order.
/// `ignored`: key codes that have no layout value under the configuration (they change nothing, raw keys included).
pub fn raw_of(evs: &[Ev], ignored: &[u16]) -> String {
    evs.iter()
        .filter_map(|e| match e {
            Ev::Key { code, .. } if !ignored.contains(code) => crate::keys::by_code(*code).and_then(|k| k.ch),
            _ => None,
        })
        .collect()
}

pub struct Judge<'a> {
    pub dict: &'a Dict,
    pub emoji: &'a HashSet<String>,
    pub report: &'a Report,
    pub prop: &'static str,
}

impl<'a> Judge<'a> {
    /// Judge one list returned in fixed mode. `raw`: the raw key text (None when a backspace was used).
    pub fn judge(&self, opts: &Opts, evs: &[Ev], r: &Rend, raw: Option<&str>) -> bool {
        let Rend::Full { aux, items, .. } = r else { return true };
        let mut ok = true;
        let mut viol = |kind: &str, detail: String| {
            ok = false;
            self.report.add(
                Violation::new(self.prop, kind, kind)
                    .opts(opts)
                    .events(evs)
                    .feat("composed", crate::bn::esc(aux))
                    .detail(format!("composed {:?}, candidates {:?}: {}", aux, items, detail)),
            );
        };
        let (lead, word, trail) = split_ref(aux, true);
        let (lead_c, trail_c) = if opts.smart && !word.is_empty() { (curl_open(&lead), curl_close(&trail)) } else { (lead.clone(), trail.clone()) };
        if items.is_empty() {
            viol("empty-list", "no candidates".into());
            return false;
        }
        let first_exp = format!("{}{}{}", lead_c, word, trail_c);
        if items[0] != first_exp {
            viol("first-not-composed-text", format!("first candidate {:?}, composed text (curled) {:?}", items[0], first_exp));
        }
        if items.len() > 9 {
            viol("more-than-nine", format!("{} candidates", items.len()));
        }
        let mut seen = HashSet::new();
        for it in items {
            if !seen.insert(it) {
                viol("repeated-candidate", format!("{:?} occurs twice", it));
            }
        }
        let english_expected = opts.english && !opts.ansi && raw.map(|t| t != aux).unwrap_or(false);
        let mut last_is_english = false;
        if english_expected {
            if items.last().map(|s| s.as_str()) != raw {
                viol("english-not-last", format!("raw key text {:?} is not the last candidate", raw));
            } else {
                last_is_english = true;
            }
        }
        // "once punctuation and the non-joiners added for traditional joining are ignored"
        let typed_word: String = strip_zwnj(&word).chars().filter(|c| !(c.is_ascii_punctuation() || *c == crate::bn::DANDA)).collect();
        let mut prev_d: Option<usize> = None;
        for (i, it) in items.iter().enumerate().skip(1) {
            if last_is_english && i + 1 == items.len() {
                continue;
            }
            // strip the wrapping
            let inner = if it.len() >= lead_c.len() + trail_c.len() && it.starts_with(&lead_c) && it.ends_with(&trail_c) {
                &it[lead_c.len()..it.len() - trail_c.len()]
            } else {
                it.as_str()
            };
            if self.emoji.contains(inner) || self.emoji.contains(it.as_str()) {
                if opts.ansi {
                    viol("emoji-in-ansi", format!("emoji candidate {:?} offered with ANSI on", it));
                }
                continue;
            }
            if raw.is_none() && opts.english && !opts.ansi && i + 1 == items.len() && it.is_ascii() {
                continue; // after a backspace the raw-text candidate is unspecified
            }
            let plain = strip_zwnj(inner);
            if !self.dict.set.contains(&plain) {
                viol("not-a-dictionary-word", format!("candidate {:?} (inner {:?}) is not in dictionary.json", it, plain));
                continue;
            }
            if !plain.starts_with(&typed_word) {
                viol("not-a-completion", format!("candidate {:?} does not begin with the typed word {:?}", plain, typed_word));
            }
            let d = edit_distance::edit_distance(&word, inner);
            if let Some(p) = prev_d {
                if d < p {
                    viol("distance-decreases", format!("candidate {:?} has distance {} after distance {}", it, d, p));
                }
            }
            prev_d = Some(d);
        }
        ok
    }
}

struct Walker<'a> {
    ctx: Ctx,
    inv: &'a InverseLayout,
    judge: &'a Judge<'a>,
    samples: &'a Samples,
    lists: u64,
    nontrivial: u64,
    untypeable: u64,
    path: Vec<Ev>,
}

impl<'a> Walker<'a> {
    fn walk(&mut self, t: &Trie, state: &FxState, prefix: &mut String) {
        self.walk_only(t, state, prefix, None)
    }
    /// `only`: visit just this child at this level (load balancing)
    fn walk_only(&mut self, t: &Trie, state: &FxState, prefix: &mut String, only: Option<char>) {
        for (&c, child) in &t.children {
            if only.map(|o| o != c).unwrap_or(false) {
                continue;
            }
            let Some(ev) = self.inv.key(c).cloned() else {
                self.untypeable += 1 + child.count() as u64;
                continue;
            };
            restore(&self.ctx, state);
            self.path.push(ev.clone());
            prefix.push(c);
            match self.ctx.apply(&ev) {
                Ok(Out::Sugg(r)) => {
                    let st = read_state(&self.ctx);
                    let composed_plain: String = st.buf.chars().filter(|&x| x != crate::bn::ZWNJ).collect();
                    if composed_plain != *prefix {
                        // a built-in composition rule rewrote the text (e.g. hasanta + sign): not this word
                        self.untypeable += 1 + child.count() as u64;
                    } else {
                        self.lists += 1;
                        if r.len() > 1 {
                            self.nontrivial += 1;
                        }
                        // the raw key text comes from the harness's key table, not from the engine's own record
                        let raw = raw_of(&self.path, &[]);
                        self.judge.judge(&self.ctx.opts, &self.path, &r, Some(&raw));
                        if prefix.chars().count() == 3 && r.len() > 4 {
                            self.samples.offer(|| json!({"flags": self.ctx.opts.flags(), "typed": prefix.clone(), "result": r.to_json()}));
                        }
                        self.walk(child, &st, prefix);
                    }
                }
                Ok(_) => {}
                Err(f) => {
                    self.judge.report.add(fail_violation(self.judge.prop, &f, &self.ctx.opts, &self.path));
                }
            }
            prefix.pop();
            self.path.pop();
        }
    }
}

pub fn select_words(dict: &Dict, thorough: bool) -> (Vec<String>, String) {
    if thorough {
        return (dict.words().cloned().collect(), "all words of dictionary.json".into());
    }
    let mut sizes: Vec<(&String, usize)> = dict.tables.iter().map(|(k, v)| (k, v.len())).collect();
    sizes.sort_by_key(|(k, n)| (*n, k.to_string()));
    let small: HashSet<&String> = sizes.iter().take(25).map(|(k, _)| *k).collect();
    let mut words = vec![];
    for (k, v) in &dict.tables {
        for w in v {
            if small.contains(k) || w.chars().count() <= 4 {
                words.push(w.clone());
            }
        }
    }
    (words, "every word of the 25 smallest first-letter tables and every word of <= 4 code points of the other 22".into())
}

pub fn run(report: &Report, thorough: bool) -> Evidence {
    let dict = Dict::load(&real_db());
    let inv = InverseLayout::load(&probhat());
    let emoji = emoji_set();
    let judge = Judge { dict: &dict, emoji: &emoji, report, prop: "C15" };
    let samples = Samples::new(8);
    let (sub_words, sub_space) = select_words(&dict, false);
    let sub_set: HashSet<&String> = sub_words.iter().collect();
    // both tiers type EVERY word of the dictionary; the quick tier does so under one
    // configuration and uses the enumerated sub-space for the other three
    let (words, _) = select_words(&dict, true);
    let space = if thorough { "all words of dictionary.json under all 16 configurations".to_string() } else { format!("all words of dictionary.json under configuration 1; {} under configurations 2-4", sub_space) };
    // tries per (first two characters) for load balancing
    let mut groups: BTreeMap<String, Trie> = BTreeMap::new();
    for w in &words {
        let key: String = w.chars().take(1).collect();
        groups.entry(key).or_default().insert(w);
    }
    // split big groups by the second character
    let mut work: Vec<(String, &Trie)> = vec![];
    for (_k, t) in &groups {
        for (c1, t1) in &t.children {
            // the one-character prefix itself is handled by a dedicated item (empty sub-trie marker)
            work.push((c1.to_string(), t1));
        }
    }
    let cfgs: Vec<(bool, bool, bool, bool)> = if thorough {
        (0..16).map(|b| (b & 1 != 0, b & 2 != 0, b & 4 != 0, b & 8 != 0)).collect()
    } else {
        // (kar, smart, english, ansi)
        vec![(true, true, true, false), (false, true, false, false), (false, false, true, true), (true, false, false, true)]
    };
    // sub-space tries for configurations 2.. of the quick tier
    let mut sub_groups: BTreeMap<String, Trie> = BTreeMap::new();
    for w in &sub_words {
        let key: String = w.chars().take(1).collect();
        sub_groups.entry(key).or_default().insert(w);
    }
    let _ = &sub_set;
    let lists = AtomicU64::new(0);
    let nontrivial = AtomicU64::new(0);
    let untypeable = AtomicU64::new(0);
    // second-level split for balance: items = (cfg, first char, second char)
    let mut items: Vec<(usize, String, Option<char>)> = vec![];
    for ci in 0..cfgs.len() {
        for (c1, t1) in &work {
            items.push((ci, c1.clone(), None));
            for c2 in t1.children.keys() {
                items.push((ci, c1.clone(), Some(*c2)));
            }
        }
    }
    let tries: BTreeMap<String, &Trie> = work.iter().map(|(k, t)| (k.clone(), *t)).collect();
    let mut sub_work: Vec<(String, &Trie)> = vec![];
    for (_k, t) in &sub_groups {
        for (c1, t1) in &t.children {
            sub_work.push((c1.to_string(), t1));
        }
    }
    let sub_tries: BTreeMap<String, &Trie> = sub_work.iter().map(|(k, t)| (k.clone(), *t)).collect();
    if !thorough {
        // rebuild the item list: configuration 0 over everything, the others over the sub-space
        items.clear();
        for (c1, t1) in &work {
            items.push((0, c1.clone(), None));
            for c2 in t1.children.keys() {
                items.push((0, c1.clone(), Some(*c2)));
            }
        }
        for ci in 1..cfgs.len() {
            for (c1, t1) in &sub_work {
                items.push((ci, c1.clone(), None));
                for c2 in t1.children.keys() {
                    items.push((ci, c1.clone(), Some(*c2)));
                }
            }
        }
    }
    par_for(
        items.len(),
        4,
        |w| (scratch_xdg(&format!("c15-{}", w)), std::collections::HashMap::<usize, Ctx>::new()),
        |st, idx| {
            let (xdg, ctxs) = st;
            let (ci, c1, c2) = &items[idx];
            let (kar, smart, english, ansi) = cfgs[*ci];
            let ctx = ctxs.remove(ci).unwrap_or_else(|| {
                let mut o = Opts::fixed(&probhat(), &real_db(), xdg);
                o.fsugg = true;
                o.kar = kar;
                o.smart = smart;
                o.english = english;
                o.ansi = ansi;
                // every second configuration is reached through update_engine by a used context created with the options
                // inverted (driver option via_update)
                o.via_update = *ci % 2 == 1;
                // ... and the others are built on a Config object that has held the opposite value of every option before
                o.churn = *ci % 2 == 0;
                let mut c = Ctx::new(&o).expect("ctx");
                c.with_pre = false;
                c
            });
            let mut w = Walker { ctx, inv: &inv, judge: &judge, samples: &samples, lists: 0, nontrivial: 0, untypeable: 0, path: vec![] };
            let t1 = if thorough || *ci == 0 { tries[c1] } else { sub_tries[c1] };
            let c1c = c1.chars().next().unwrap();
            // type the first character
            let mut top = Trie::default();
            match c2 {
                None => {
                    // only the one-character prefix
                    top.children.insert(c1c, Trie::default());
                    let mut p = String::new();
                    w.walk(&top, &FxState::idle(), &mut p);
                }
                Some(c2) => {
                    let sub_count = 1 + t1.children[c2].count() as u64;
                    match inv.key(c1c).cloned() {
                        Some(ev) => {
                            restore(&w.ctx, &FxState::idle());
                            match w.ctx.apply(&ev) {
                                Ok(Out::Sugg(_)) => {
                                    let st1 = read_state(&w.ctx);
                                    if st1.buf == *c1 {
                                        w.path.push(ev);
                                        let mut p = c1.clone();
                                        w.walk_only(t1, &st1, &mut p, Some(*c2));
                                    } else {
                                        w.untypeable += sub_count;
                                    }
                                }
                                _ => w.untypeable += sub_count, // reported by the one-character item
                            }
                        }
                        None => w.untypeable += sub_count,
                    }
                }
            }
            lists.fetch_add(w.lists, Ordering::Relaxed);
            nontrivial.fetch_add(w.nontrivial, Ordering::Relaxed);
            untypeable.fetch_add(w.untypeable, Ordering::Relaxed);
            ctxs.insert(*ci, w.ctx);
        },
        |_| (),
    );

    // wrapped variants and the backspace clause on a fully enumerated sub-space: every word of the
    // 12 smallest tables, wrapped in ( ), " ", trailing : and danda; plus one backspace + retype
    let wrapped = AtomicU64::new(0);
    {
        let mut sizes: Vec<(&String, usize)> = dict.tables.iter().map(|(k, v)| (k, v.len())).collect();
        sizes.sort_by_key(|(k, n)| (*n, k.to_string()));
        let ntab = if thorough { 25 } else { 12 };
        let ws: Vec<&String> = sizes.iter().take(ntab).flat_map(|(k, _)| dict.tables[*k].iter()).collect();
        // wrappings (incl. two trailing marks) and, for words of >= 3 code points, one punctuation
        // character inserted after the second code point (regex-special ones among them)
        let wraps: [(&str, &str); 8] = [("(", ")"), ("\"", "\""), ("", ":"), ("", "\u{0964}"), ("'", ""), ("", "?!"), ("\"(", ")\u{0964}"), ("", ",,,")];
        let inner: [char; 6] = ['?', '(', ')', '+', '^', '-'];
        let noop_code = crate::keys::by_name("VC_KP_5").unwrap().code;
        let noop = Ev::key(noop_code);
        par_for(
            ws.len(),
            8,
            |w| {
                let xdg = scratch_xdg(&format!("c15w-{}", w));
                let mut v = vec![];
                // (kar, smart, english, ansi): quick - the four {smart, ANSI} combinations; thorough - all 16 settings
                let wcfgs: Vec<(bool, bool, bool, bool)> = if thorough {
                    (0..16).map(|b| (b & 1 != 0, b & 2 != 0, b & 4 != 0, b & 8 != 0)).collect()
                } else {
                    vec![(false, true, true, false), (true, false, false, true), (false, true, false, true), (true, false, true, false)]
                };
                for (wci, (kar, smart, english, ansi)) in wcfgs.into_iter().enumerate() {
                    let mut o = Opts::fixed(&probhat(), &real_db(), &xdg);
                    o.fsugg = true;
                    o.kar = kar;
                    o.smart = smart;
                    o.english = english;
                    o.ansi = ansi;
                    o.via_update = wci % 2 == 1;
                    o.churn = wci == 0;
                    // (the third: created for the phonetic method, switched to the layout by update-engine)
                    o.via_switch = wci == 2;
                    let mut c = Ctx::new(&o).expect("ctx");
                    c.with_pre = false;
                    v.push(c);
                }
                v
            },
            |ctxs, idx| {
                let word = ws[idx];
                let mut texts: Vec<String> = wraps.iter().map(|(l, t)| format!("{}{}{}", l, word, t)).collect();
                if word.chars().count() >= 3 {
                    let cs: Vec<char> = word.chars().collect();
                    for p in inner {
                        let mut s: String = cs[..2].iter().collect();
                        s.push(p);
                        s.extend(cs[2..].iter());
                        texts.push(s);
                    }
                }
                for ctx in ctxs.iter_mut() {
                    for text in texts.iter() {
                        let text = text.clone();
                        let Some(evs) = inv.events(&text) else { continue };
                        restore(ctx, &FxState::idle());
                        let mut last = None;
                        let mut okk = true;
                        for (i, e) in evs.iter().enumerate() {
                            match ctx.apply(e) {
                                Ok(Out::Sugg(r)) => last = Some(r),
                                Ok(_) => {}
                                Err(f) => {
                                    report.add(fail_violation("C15", &f, &ctx.opts, &evs[..=i]));
                                    okk = false;
                                    break;
                                }
                            }
                        }
                        if !okk {
                            continue;
                        }
                        let st = read_state(ctx);
                        if strip_zwnj(&st.buf) != text {
                            continue;
                        }
                        if let Some(r) = &last {
                            wrapped.fetch_add(1, Ordering::Relaxed);
                            judge.judge(&ctx.opts, &evs, r, Some(&raw_of(&evs, &[])));
                        }
                        // the SAME text composed again in the same context after the word was deleted (ctrl-backspace) and the
                        // options it depends on were changed while idle (English and smart quotes flipped through update-engine):
                        // the list must be the one of the new options - nothing remembered for a composed text may survive
                        if text == **word || (text.len() == word.len() + 2 && text.starts_with('"')) {
                            let mut o2 = ctx.opts.clone();
                            o2.english = !o2.english;
                            o2.smart = !o2.smart;
                            o2.via_update = false;
                            o2.churn = false;
                            let back = ctx.opts.clone();
                            let mut h: Vec<Ev> = evs.clone();
                            h.push(Ev::CtrlBs);
                            h.push(Ev::Update(Box::new(o2.clone())));
                            let mut ok2 = ctx.apply(&Ev::CtrlBs).is_ok() && ctx.apply(&Ev::Update(Box::new(o2.clone()))).is_ok();
                            let mut last2 = None;
                            if ok2 {
                                for e in evs.iter() {
                                    h.push(e.clone());
                                    match ctx.apply(e) {
                                        Ok(Out::Sugg(r)) => last2 = Some(r),
                                        Ok(_) => {}
                                        Err(f) => {
                                            report.add(fail_violation("C15", &f, &o2, &h));
                                            ok2 = false;
                                            break;
                                        }
                                    }
                                }
                            }
                            if ok2 {
                                if let Some(r2) = &last2 {
                                    wrapped.fetch_add(1, Ordering::Relaxed);
                                    judge.judge(&o2, &h, r2, Some(&raw_of(&evs, &[])));
                                }
                            }
                            let _ = ctx.apply(&Ev::CtrlBs);
                            let _ = ctx.apply(&Ev::Update(Box::new(back)));
                        }
                        // a key the layout gives nothing for (number-pad key, number-pad option off) pressed in front of,
                        // inside and after the text changes nothing: same list, raw key text without it
                        if text.len() == word.len() + 2 || text == **word {
                            for pos in [0usize, 1, evs.len()] {
                                if pos > evs.len() {
                                    continue;
                                }
                                let mut e3 = evs.clone();
                                e3.insert(pos, noop.clone());
                                restore(ctx, &FxState::idle());
                                let mut last3 = None;
                                let mut failed = false;
                                for (i, e) in e3.iter().enumerate() {
                                    match ctx.apply(e) {
                                        Ok(Out::Sugg(r)) => last3 = Some(r),
                                        Ok(_) => {}
                                        Err(f) => {
                                            report.add(fail_violation("C15", &f, &ctx.opts, &e3[..=i]));
                                            failed = true;
                                            break;
                                        }
                                    }
                                }
                                if failed {
                                    continue;
                                }
                                wrapped.fetch_add(1, Ordering::Relaxed);
                                if let (Some(a), Some(b)) = (&last, &last3) {
                                    if judge.judge(&ctx.opts, &e3, b, Some(&raw_of(&e3, &[noop_code]))) && a != b {
                                        report.add(
                                            Violation::new("C15", "ignored-key-changes-list", "ignored-key-changes-list")
                                                .opts(&ctx.opts)
                                                .events(&e3)
                                                .detail(format!("with a key that has no layout value at position {} the list is {} instead of {}", pos, b.to_json(), a.to_json())),
                                        );
                                    }
                                }
                            }
                            // back to the state after the text, for the backspace clause below
                            restore(ctx, &FxState::idle());
                            for e in evs.iter() {
                                let _ = ctx.apply(e);
                            }
                        }
                        // one backspace: the list for the shorter text, raw-text clause suspended
                        if let Ok(Out::Sugg(rb)) = ctx.apply(&Ev::Bs) {
                            let mut e2 = evs.clone();
                            e2.push(Ev::Bs);
                            wrapped.fetch_add(1, Ordering::Relaxed);
                            judge.judge(&ctx.opts, &e2, &rb, None);
                        }
                    }
                }
            },
            |_| (),
        );
    }

    let mut ev = Evidence::new("C15", &report.tier, "exploration");
    ev.set("evaluations", lists.load(Ordering::Relaxed) + wrapped.load(Ordering::Relaxed));
    ev.set("distinct_nontrivial", nontrivial.load(Ordering::Relaxed));
    ev.set("rule", format!("sub-space: {}; every distinct prefix of those words is typed through Probhat under each configuration and its list judged; non-trivial = (configuration, prefix) pairs whose list has more than the composed text", space));
    ev.set("exhaustive", true);
    ev.set("exhaustive_for", space);
    ev.set("words_in_subspace", words.len());
    ev.set("configurations", json!(cfgs.iter().map(|(k, s, e, a)| format!("kar={} smart={} english={} ansi={}", k, s, e, a)).collect::<Vec<_>>()));
    ev.set("lists_judged_bare", lists.load(Ordering::Relaxed));
    ev.set("lists_judged_wrapped_or_after_backspace", wrapped.load(Ordering::Relaxed));
    ev.set("prefixes_not_typeable_as_is", untypeable.load(Ordering::Relaxed));
    ev.set("samples", samples.take());
    ev.assume("dictionary.json read by the harness; distance = Levenshtein (edit-distance crate) between typed word and candidate; emoji identified from the emojicon tables");
    ev.assume("prefix states are re-entered with the state-restore hook (buffer + raw keys), so no backspace is involved in the bare walk");
    ev
}
