//! C16 — ANSI mode yields pure Bijoy text and never offers what it cannot encode.
//!
//!  (i)  read-out: with ANSI on the pre-edit text of every candidate equals
//!       poriborton::unicode_to_bijoy(candidate) (called by the harness) and holds no code point of
//!       the Bengali block; with ANSI off it equals the candidate;
//!  (ii) differential: the list with ANSI on (English on!) equals the list of a twin with ANSI off
//!       and English off after removing the twin's emoji-class candidates (exact in phonetic
//!       mode; up to permutation inside a distance tie and the cut at nine in fixed mode);
//!  (iii) data-exhaustive: dictionary words typed in fixed mode, auto-correct keys (+ suffixes)
//!       in phonetic mode, every candidate read out.

use crate::data::{Dict, InverseLayout};
use crate::drv::{probhat, real_db, scratch_xdg, Ctx, Ev, Opts, Out, Rend};
use crate::fxgraph::{read_state, restore, FxState};
use crate::par::par_for;
use crate::props::c01::fail_violation;
use crate::report::{Evidence, Report, Samples, Violation};
use poriborton::bijoy2000::unicode_to_bijoy;
use serde_json::json;
use std::collections::HashSet;
use std::sync::atomic::{AtomicU64, Ordering};

struct Chk<'a> {
    report: &'a Report,
    emoji: &'a HashSet<String>,
    dict_chars: &'a HashSet<char>,
    emoticons: &'a HashSet<String>,
    avro: &'a crate::avro::Avro,
    readouts: AtomicU64,
    pairs: AtomicU64,
    residue_outside_dictionary_alphabet: AtomicU64,
}

impl<'a> Chk<'a> {
    /// (i) on one rendering
    fn readout(&self, opts: &Opts, evs: &[Ev], r: &Rend) {
        let (items, pres): (Vec<String>, Vec<String>) = match r {
            Rend::Full { items, pre, .. } => (items.clone(), pre.clone()),
            Rend::Single { text, pre } => (vec![text.clone()], vec![pre.clone()]),
            Rend::Empty => return,
        };
        for (c, p) in items.iter().zip(pres.iter()) {
            self.readouts.fetch_add(1, Ordering::Relaxed);
            if opts.ansi {
                let exp = crate::drv::guard(|| unicode_to_bijoy(c));
                match exp {
                    Ok(exp) => {
                        if *p != exp {
                            self.report.add(Violation::new("C16", "pre-edit-not-bijoy", "pre-edit-not-bijoy").opts(opts).events(evs).feat("candidate", crate::bn::esc(c)).detail(format!("candidate {:?}: pre-edit {:?}, Bijoy encoding {:?}", c, p, exp)));
                        }
                    }
                    Err(_) => {} // the encoder itself fails on this text: the read-out failure is reported by the caller
                }
                if p.chars().any(crate::bn::is_bengali_block) {
                    // characters the Bijoy encoder has no glyph for: only a violation for text made of
                    // the characters the dictionary itself uses
                    if c.chars().filter(|x| crate::bn::is_bengali_block(*x)).all(|x| self.dict_chars.contains(&x)) {
                        self.report.add(Violation::new("C16", "bengali-residue", "bengali-residue").opts(opts).events(evs).feat("candidate", crate::bn::esc(c)).detail(format!("candidate {:?}: pre-edit {:?} still contains Bengali-block code points", c, p)));
                    } else {
                        self.residue_outside_dictionary_alphabet.fetch_add(1, Ordering::Relaxed);
                    }
                }
            } else if p != c {
                self.report.add(Violation::new("C16", "pre-edit-differs-without-ansi", "pre-edit-differs-without-ansi").opts(opts).events(evs).feat("candidate", crate::bn::esc(c)).detail(format!("ANSI off: candidate {:?}, pre-edit {:?}", c, p)));
            }
        }
    }
    fn strip_wrap<'b>(&self, c: &'b str) -> &'b str {
        c.trim_matches(|x: char| x.is_ascii_punctuation() || "\u{2018}\u{2019}\u{201C}\u{201D}\u{0964}\u{0983}".contains(x))
    }
    fn is_emoji(&self, c: &str) -> bool {
        if self.emoji.contains(c) || self.emoji.contains(self.strip_wrap(c)) {
            return true;
        }
        // an emoji may itself begin with an ASCII punctuation character (keycap # and *): try every way of taking wrapping
        // characters off the two ends
        let wrap = |x: char| x.is_ascii_punctuation() || "\u{2018}\u{2019}\u{201C}\u{201D}\u{0964}\u{0983}".contains(x);
        let idx: Vec<(usize, char)> = c.char_indices().collect();
        let n = idx.len();
        let mut i = 0;
        loop {
            let mut j = n;
            loop {
                if i < j {
                    let a = idx[i].0;
                    let b = if j == n { c.len() } else { idx[j].0 };
                    if self.emoji.contains(&c[a..b]) {
                        return true;
                    }
                }
                if j == 0 || j <= i || !wrap(idx[j - 1].1) {
                    break;
                }
                j -= 1;
            }
            if i >= n || !wrap(idx[i].1) {
                break;
            }
            i += 1;
        }
        false
    }
    /// (ii) ANSI-on list vs twin (ANSI off, English off)
    fn differential(&self, opts_on: &Opts, evs: &[Ev], on: &Rend, twin: &Rend, fixed_word: Option<&str>) {
        self.pairs.fetch_add(1, Ordering::Relaxed);
        let a: Vec<String> = on.items().to_vec();
        // the twin's emoji and, when the whole text is an emoticon, its literal (emoticon-derived) go
        let typed: String = evs.iter().filter_map(|e| if let Ev::Key { code, .. } = e { crate::keys::by_code(*code).and_then(|k| k.ch) } else { None }).collect();
        let translit = {
            let (p, w, t) = crate::avro::split_ref(&typed, false);
            self.avro.tr_parts(&p, &w, &t)
        };
        // (when the transliteration of the text is the text itself, that one candidate stays)
        let emoticon_literal = fixed_word.is_none() && self.emoticons.contains(&typed) && crate::avro::uncurl(&translit) != typed && !evs.iter().any(|e| matches!(e, Ev::Bs));
        let b: Vec<String> = twin.items().iter().filter(|c| !self.is_emoji(c) && !(emoticon_literal && **c == typed)).cloned().collect();
        // directly: the raw typed text is never a candidate under ANSI (unless it is its own transliteration);
        // the twin runs the same code, so this clause cannot be left to the comparison
        if fixed_word.is_none() && !typed.is_empty() && crate::avro::uncurl(&translit) != typed && a.iter().any(|c| *c == typed) {
            self.report.add(Violation::new("C16", "raw-english-in-ansi", "raw-english-in-ansi").opts(opts_on).events(evs).detail(format!("the raw typed text {:?} is offered with ANSI on: {:?}", typed, a)));
            return;
        }
        if let Some(e) = a.iter().find(|c| self.is_emoji(c)) {
            self.report.add(Violation::new("C16", "emoji-in-ansi", "emoji-in-ansi").opts(opts_on).events(evs).detail(format!("emoji candidate {:?} offered with ANSI on: {:?}", e, a)));
            return;
        }
        let same = match fixed_word {
            None => a == b && on.sel() == {
                // preselection: index of the same text in the filtered list
                let t = twin.items().get(twin.sel()).cloned();
                t.and_then(|t| b.iter().position(|x| *x == t)).unwrap_or(on.sel())
            },
            Some(word) => {
                // tie-insensitive: `a` (<= 9) and `b` (<= 9 minus emoji) must agree on every distance class
                // strictly below the last distance of the shorter list
                let dist = |c: &String| edit_distance::edit_distance(word, self.strip_wrap(c));
                let n = a.len().min(b.len());
                if a.first() != b.first() {
                    false
                } else if n <= 1 {
                    true
                } else {
                    let da: Vec<usize> = a[1..n].iter().map(dist).collect();
                    let db: Vec<usize> = b[1..n].iter().map(dist).collect();
                    let last = *da.last().unwrap();
                    let sa: HashSet<&String> = a[1..].iter().filter(|c| dist(c) < last).collect();
                    let sb: HashSet<&String> = b[1..].iter().filter(|c| dist(c) < last).collect();
                    da == db && sa == sb
                }
            }
        };
        if !same {
            self.report.add(
                Violation::new("C16", "ansi-list-differs", if fixed_word.is_some() { "ansi-list-differs:fixed" } else { "ansi-list-differs:phonetic" })
                    .opts(opts_on)
                    .events(evs)
                    .detail(format!("ANSI on (English on): {:?} sel {}; ANSI off, English off, emoji removed: {:?} (twin sel {})", a, on.sel(), b, twin.sel())),
            );
        }
    }
}

struct PairDfs<'a> {
    on: Ctx,
    twin: Ctx,
    chk: &'a Chk<'a>,
    alphabet: &'a [char],
    text: String,
    events: u64,
}
impl<'a> PairDfs<'a> {
    fn evs(&self) -> Vec<Ev> {
        self.text.chars().map(Ev::ch).collect()
    }
    fn both(&mut self, ev: &Ev) -> Option<(Rend, Rend)> {
        self.events += 2;
        let a = self.on.apply(ev);
        let b = self.twin.apply(ev);
        match (a, b) {
            (Ok(Out::Sugg(x)), Ok(Out::Sugg(y))) => Some((x, y)),
            (Err(f), _) => {
                let mut evs = self.evs();
                evs.push(ev.clone());
                self.chk.report.add(fail_violation("C16", &f, &self.on.opts, &evs));
                None
            }
            (_, Err(f)) => {
                let mut evs = self.evs();
                evs.push(ev.clone());
                self.chk.report.add(fail_violation("C16", &f, &self.twin.opts, &evs));
                None
            }
            _ => None,
        }
    }
    fn judge(&mut self, x: &Rend, y: &Rend) {
        let evs = self.evs();
        self.chk.readout(&self.on.opts, &evs, x);
        self.chk.readout(&self.twin.opts, &evs, y);
        if self.on.opts.psugg {
            self.chk.differential(&self.on.opts, &evs, x, y, None);
        }
    }
    fn resync(&mut self) {
        let _ = self.on.apply(&Ev::Finish);
        let _ = self.twin.apply(&Ev::Finish);
        for c in self.text.clone().chars() {
            let _ = self.on.ch(c);
            let _ = self.twin.ch(c);
        }
    }
    fn rec(&mut self, depth: usize) {
        if depth == 0 {
            return;
        }
        for i in 0..self.alphabet.len() {
            let c = self.alphabet[i];
            match self.both(&Ev::ch(c)) {
                Some((x, y)) => {
                    self.text.push(c);
                    self.judge(&x, &y);
                    // a key without a character (keypad Enter) changes nothing: what it shows again is judged like any
                    // other suggestion (it must come from the current text and the current options)
                    if let Some((xn, yn)) = self.both(&Ev::key(crate::keys::by_name("VC_KP_ENTER").unwrap().code)) {
                        self.judge(&xn, &yn);
                        if xn != x {
                            let mut evs = self.evs();
                            evs.push(Ev::key(crate::keys::by_name("VC_KP_ENTER").unwrap().code));
                            self.chk.report.add(Violation::new("C16", "reshown-suggestion-differs", "reshown-suggestion-differs").opts(&self.on.opts).events(&evs).detail(format!("the key changed nothing, yet the suggestion shown again is {} instead of {}", xn.to_json(), x.to_json())));
                        }
                    }
                    self.rec(depth - 1);
                    match self.both(&Ev::Bs) {
                        Some((xb, yb)) => {
                            self.text.pop();
                            if !self.text.is_empty() {
                                self.judge(&xb, &yb);
                            }
                        }
                        None => {
                            self.text.pop();
                            self.resync();
                        }
                    }
                }
                None => self.resync(),
            }
        }
    }
}

pub fn run(report: &Report, thorough: bool) -> Evidence {
    let dict = Dict::load(&real_db());
    let emoji = crate::props::c15::emoji_set();
    let dict_chars: HashSet<char> = dict.words().flat_map(|w| w.chars()).collect();
    let emoticons: HashSet<String> = emojicon::internal::emoticons().keys().map(|k| k.to_string()).collect();
    let avro = crate::avro::Avro::new();
    let chk = Chk { report, emoji: &emoji, dict_chars: &dict_chars, emoticons: &emoticons, avro: &avro, readouts: AtomicU64::new(0), pairs: AtomicU64::new(0), residue_outside_dictionary_alphabet: AtomicU64::new(0) };
    let samples = Samples::new(6);
    let events = AtomicU64::new(0);
    let mut parts = serde_json::Map::new();

    // ---------- phonetic paired walks ----------
    if crate::par::part_enabled("phonetic") {
        // a learned store in which the user chose the raw typed text for every one- and some two-letter words
        // (such a choice must not bring the raw text back under ANSI)
        let raw_store: String = {
            let mut m = serde_json::Map::new();
            for c in 'a'..='z' {
                m.insert(c.to_string(), json!(c.to_string()));
            }
            for w in ["as", "am", "ki", "na", "se", "ar"] {
                m.insert(w.to_string(), json!(w));
            }
            serde_json::Value::Object(m).to_string()
        };
        let mk = |xdg: &str, ansi: bool, english: bool, smart: bool, psugg: bool| {
            let mut o = Opts::phonetic(&real_db(), xdg);
            o.ansi = ansi;
            o.english = english;
            o.smart = smart;
            o.psugg = psugg;
            // the smart-quote-off walks build their Config with the setters in reverse order
            o.reversed_setters = !smart;
            // ... and the ANSI context of the suggestions-off walks is a re-configured one (created with every option
            // inverted, then update_engine)
            o.via_update = ansi && !psugg;
            // the others: a Config object that has held the opposite value of every option before
            o.churn = !o.reversed_setters && !o.via_update;
            crate::drv::clear_user_files(&o);
            Ctx::new(&o).expect("ctx")
        };
        let all94: Vec<char> = (33u8..=126).map(|b| b as char).collect();
        let az: Vec<char> = ('a'..='z').collect();
        // job = (alphabet id, prefix, depth, smart, psugg)
        let mut jobs: Vec<(u8, String, usize, bool, bool)> = vec![];
        for &c in &all94 {
            for smart in [true, false] {
                jobs.push((0, c.to_string(), 1, smart, true));
            }
            jobs.push((0, c.to_string(), 1, true, false));
        }
        jobs.push((0, String::new(), 1, true, true));
        let n = if thorough { 4 } else { 3 };
        for a in &az {
            for b in &az {
                jobs.push((1, format!("{}{}", a, b), n - 2, true, true));
            }
        }
        par_for(
            jobs.len(),
            1,
            |w| scratch_xdg(&format!("c16p-{}", w)),
            |xdg, idx| {
                let (aid, prefix, depth, smart, psugg) = &jobs[idx];
                let mut on = mk(xdg, true, true, *smart, *psugg);
                std::fs::create_dir_all(format!("{}-twin/openbangla-keyboard", xdg)).ok();
                let mut twin = mk(&format!("{}-twin", xdg), false, false, *smart, *psugg);
                if *aid == 1 && idx % 2 == 1 {
                    // every second lower-case walk runs over the learned store (both contexts)
                    std::fs::write(on.opts.selection_file(), &raw_store).expect("store");
                    std::fs::write(twin.opts.selection_file(), &raw_store).expect("store");
                    on.reset().expect("reset");
                    twin.reset().expect("reset");
                }
                let alphabet: &[char] = if *aid == 0 { &all94 } else { &az };
                let mut d = PairDfs { on, twin, chk: &chk, alphabet, text: String::new(), events: 0 };
                let mut ok = true;
                for c in prefix.chars() {
                    match d.both(&Ev::ch(c)) {
                        Some((x, y)) => {
                            d.text.push(c);
                            if d.text.len() == prefix.len() {
                                d.judge(&x, &y);
                            }
                        }
                        None => {
                            ok = false;
                            break;
                        }
                    }
                }
                if ok {
                    d.rec(*depth);
                }
                events.fetch_add(d.events, Ordering::Relaxed);
            },
            |_| (),
        );
        parts.insert("phonetic_paired_walks".into(), json!({"all_strings_len2_over_94_chars": true, "lowercase_words_max_len": n}));

        // (iii) phonetic: every auto-correct key, bare and with three suffixes, ANSI on, everything read out
        let mut keys: Vec<&String> = dict.autocorrect.keys().filter(|k| k.chars().all(|c| crate::keys::code_for_char(c).is_some())).collect();
        keys.sort();
        let sfx = ["", "er", "gulo", "ke", "ra", "tei"];
        let chunks: Vec<&[&String]> = keys.chunks(16).collect();
        par_for(
            chunks.len(),
            1,
            |w| {
                let xdg = scratch_xdg(&format!("c16pa-{}", w));
                (mk(&xdg, true, true, true, true), mk(&format!("{}-twin", xdg), false, false, true, true))
            },
            |st, idx| {
                let (on, twin) = st;
                for k in chunks[idx] {
                    for s in sfx.iter().take(if thorough { 6 } else { 3 }) {
                        let text = format!("{}{}", k, s);
                        let _ = on.apply(&Ev::Finish);
                        let _ = twin.apply(&Ev::Finish);
                        let evs: Vec<Ev> = text.chars().map(Ev::ch).collect();
                        let mut last = None;
                        for (i, e) in evs.iter().enumerate() {
                            events.fetch_add(2, Ordering::Relaxed);
                            match (on.apply(e), twin.apply(e)) {
                                (Ok(Out::Sugg(x)), Ok(Out::Sugg(y))) => last = Some((x, y)),
                                (Err(f), _) | (_, Err(f)) => {
                                    report.add(fail_violation("C16", &f, &on.opts, &evs[..=i]));
                                    last = None;
                                    break;
                                }
                                _ => {}
                            }
                        }
                        if let Some((x, y)) = last {
                            chk.readout(&on.opts, &evs, &x);
                            chk.differential(&on.opts, &evs, &x, &y, None);
                            if s.len() == 2 {
                                samples.offer(|| json!({"typed": text, "ansi_candidates": x.items(), "pre_edit": match &x { Rend::Full { pre, .. } => json!(pre), _ => json!(null) }}));
                            }
                        }
                    }
                }
            },
            |_| (),
        );
        parts.insert("phonetic_autocorrect_keys_with_suffixes".into(), json!({"keys": keys.len(), "suffixes": if thorough { 6 } else { 3 }}));
    }

    // (iv) phonetic: every English emoji name bare and wrapped (between colons as in chat short codes, in brackets, behind a
    // hash, in quotes) and every emoticon, with the suggestion list on and off: whatever source an emoji could come from, none
    // may be offered under ANSI; every rendering on the way is judged
    if crate::par::part_enabled("phonetic") {
        let mut texts: Vec<String> = vec![];
        let mut names: Vec<String> = emojicon::internal::emojis().keys().map(|k| k.to_string()).filter(|k| !k.is_empty() && k.chars().all(|c| crate::keys::code_for_char(c).is_some())).collect();
        names.sort();
        for (i, n) in names.iter().enumerate() {
            texts.push(n.clone());
            texts.push(format!(":{}:", n));
            if thorough || i % 4 == 0 {
                texts.push(format!("({})", n));
                texts.push(format!("#{}", n));
                texts.push(format!("\"{}\".", n));
            }
        }
        let mut emo: Vec<String> = emojicon::internal::emoticons().keys().map(|k| k.to_string()).filter(|k| k.chars().all(|c| crate::keys::code_for_char(c).is_some())).collect();
        emo.sort();
        texts.extend(emo);
        let chunks: Vec<&[String]> = texts.chunks(48).collect();
        let mk = |xdg: &str, ansi: bool, english: bool, psugg: bool| {
            let mut o = Opts::phonetic(&real_db(), xdg);
            o.ansi = ansi;
            o.english = english;
            o.psugg = psugg;
            crate::drv::clear_user_files(&o);
            Ctx::new(&o).expect("ctx")
        };
        par_for(
            chunks.len() * 2,
            1,
            |w| scratch_xdg(&format!("c16pe-{}", w)),
            |xdg, idx| {
                let psugg = idx % 2 == 0;
                // every second chunk: the ANSI context has a past without ANSI - it is created with ANSI off, EVERY text of the chunk
                // is typed and ended there, and only then is it switched to ANSI by update-engine (same layout, idle): whatever it
                // remembers per word from before the switch must not bring an emoji back
                let switched = (idx / 2) % 2 == 1;
                let mut on = if switched {
                    let mut c = mk(xdg, false, true, psugg);
                    for text in chunks[idx / 2] {
                        for ch in text.chars() {
                            let _ = c.apply(&Ev::ch(ch));
                        }
                        let _ = c.apply(&Ev::Finish);
                    }
                    let mut o2 = c.opts.clone();
                    o2.ansi = true;
                    let _ = c.apply(&Ev::Update(Box::new(o2)));
                    c
                } else {
                    mk(xdg, true, true, psugg)
                };
                std::fs::create_dir_all(format!("{}-twin/openbangla-keyboard", xdg)).ok();
                let mut twin = mk(&format!("{}-twin", xdg), false, false, psugg);
                for text in chunks[idx / 2] {
                    let _ = on.apply(&Ev::Finish);
                    let _ = twin.apply(&Ev::Finish);
                    let evs: Vec<Ev> = text.chars().map(Ev::ch).collect();
                    for (i, e) in evs.iter().enumerate() {
                        events.fetch_add(2, Ordering::Relaxed);
                        match (on.apply(e), twin.apply(e)) {
                            (Ok(Out::Sugg(x)), Ok(Out::Sugg(y))) => {
                                chk.readout(&on.opts, &evs[..=i], &x);
                                chk.differential(&on.opts, &evs[..=i], &x, &y, None);
                            }
                            (Err(f), _) | (_, Err(f)) => {
                                report.add(fail_violation("C16", &f, &on.opts, &evs[..=i]));
                                break;
                            }
                            _ => {}
                        }
                    }
                }
            },
            |_| (),
        );
        parts.insert("phonetic_emoji_names_and_emoticons".into(), json!({"texts": texts.len(), "wrappings": "bare, :name:, (name), #name, \"name\".", "suggestion_list": "on and off"}));
    }

    // ---------- fixed: dictionary words, ANSI on, with twin ----------
    if crate::par::part_enabled("fixed") {
        let inv = InverseLayout::load(&probhat());
        let (words, space) = crate::props::c15::select_words(&dict, thorough);
        let mk = |xdg: &str, ansi: bool, english: bool, kar: bool| {
            let mut o = Opts::fixed(&probhat(), &real_db(), xdg);
            o.fsugg = true;
            o.ansi = ansi;
            o.english = english;
            o.kar = kar;
            o.reversed_setters = kar;
            // the ANSI context of the plain-joining walks is a re-configured one
            o.via_update = ansi && !kar;
            o.churn = !o.reversed_setters && !o.via_update;
            Ctx::new(&o).expect("ctx")
        };
        let typed = AtomicU64::new(0);
        par_for(
            words.len(),
            64,
            |w| {
                let xdg = scratch_xdg(&format!("c16f-{}", w));
                vec![(mk(&xdg, true, true, false), mk(&xdg, false, false, false)), (mk(&xdg, true, true, true), mk(&xdg, false, false, true))]
            },
            |ctxs, idx| {
                let word = &words[idx];
                let Some(evs) = inv.events(word) else { return };
                // quick: the whole word; thorough: every prefix
                for (on, twin) in ctxs.iter_mut() {
                    restore(on, &FxState::idle());
                    restore(twin, &FxState::idle());
                    for (i, e) in evs.iter().enumerate() {
                        events.fetch_add(2, Ordering::Relaxed);
                        let (a, b) = (on.apply(e), twin.apply(e));
                        let last = i + 1 == evs.len();
                        match (a, b) {
                            (Ok(Out::Sugg(x)), Ok(Out::Sugg(y))) => {
                                if last || thorough {
                                    typed.fetch_add(1, Ordering::Relaxed);
                                    chk.readout(&on.opts, &evs[..=i], &x);
                                    chk.readout(&twin.opts, &evs[..=i], &y);
                                    let composed = read_state(on).buf;
                                    chk.differential(&on.opts, &evs[..=i], &x, &y, Some(&composed));
                                }
                            }
                            (Err(f), _) | (_, Err(f)) => {
                                report.add(fail_violation("C16", &f, &on.opts, &evs[..=i]));
                                break;
                            }
                            _ => {}
                        }
                    }
                }
            },
            |_| (),
        );
        // single-string mode (suggestions off) with ANSI: every word of the sub-space
        par_for(
            words.len(),
            256,
            |w| {
                let mut o = Opts::fixed(&probhat(), "", &scratch_xdg(&format!("c16fs-{}", w)));
                o.ansi = true;
                Ctx::new(&o).expect("ctx")
            },
            |ctx, idx| {
                let Some(evs) = inv.events(&words[idx]) else { return };
                restore(ctx, &FxState::idle());
                let mut last = None;
                for e in &evs {
                    events.fetch_add(1, Ordering::Relaxed);
                    match ctx.apply(e) {
                        Ok(Out::Sugg(r)) => last = Some(r),
                        Ok(_) => {}
                        Err(f) => {
                            report.add(fail_violation("C16", &f, &ctx.opts, &evs));
                            return;
                        }
                    }
                }
                if let Some(r) = last {
                    chk.readout(&ctx.opts, &evs, &r);
                }
            },
            |_| (),
        );
        // every key of the layout in both planes, alone and after a consonant, ANSI on, read out
        {
            let mut keyp = 0u64;
            for fsugg in [false, true] {
                let mut o = Opts::fixed(&probhat(), &real_db(), &scratch_xdg("c16fk"));
                o.ansi = true;
                o.fsugg = fsugg;
                let mut ctx = Ctx::new(&o).expect("ctx");
                for k in crate::keys::KEYS {
                    for m in [0u8, 2] {
                        for pre in ["", "\u{0995}"] {
                            restore(&ctx, &FxState { buf: pre.to_string(), typed: String::new(), pending: 0 });
                            let ev = Ev::Key { code: k.code, m, sel: 0 };
                            keyp += 1;
                            match ctx.apply(&ev) {
                                Ok(Out::Sugg(r)) => chk.readout(&ctx.opts, &[ev.clone()], &r),
                                Ok(_) => {}
                                Err(f) => {
                                    let mut v = fail_violation("C16", &f, &ctx.opts, &[ev.clone()]);
                                    v = v.feat("pre", crate::bn::esc(pre));
                                    report.add(v);
                                }
                            }
                        }
                    }
                }
            }
            // ... and in the middle of a real word (typed, not restored, so the shown list exists):
            // keys without a character re-show the current list, which must still be Bijoy
            for fsugg in [false, true] {
                let mut o = Opts::fixed(&probhat(), &real_db(), &scratch_xdg("c16fk2"));
                o.ansi = true;
                o.fsugg = fsugg;
                o.english = true;
                let mut ctx = Ctx::new(&o).expect("ctx");
                for k in crate::keys::KEYS {
                    for m in [0u8, 2] {
                        let _ = ctx.apply(&Ev::Finish);
                        let mut evs = vec![Ev::ch('a'), Ev::ch('m'), Ev::ch('i')];
                        for e in &evs {
                            let _ = ctx.apply(e);
                        }
                        let ev = Ev::Key { code: k.code, m, sel: 0 };
                        evs.push(ev.clone());
                        keyp += 1;
                        match ctx.apply(&ev) {
                            Ok(Out::Sugg(r)) => chk.readout(&ctx.opts, &evs, &r),
                            Ok(_) => {}
                            Err(f) => {
                                report.add(fail_violation("C16", &f, &ctx.opts, &evs));
                            }
                        }
                    }
                }
            }
            parts.insert("fixed_every_layout_key_both_planes".into(), json!({"key_presses": keyp}));
        }
        parts.insert("fixed_dictionary_words".into(), json!({"sub_space": space, "words": words.len(), "lists_judged": typed.load(Ordering::Relaxed), "every_prefix": thorough}));
    }

    let mut ev = Evidence::new("C16", &report.tier, "exploration");
    ev.set("evaluations", chk.readouts.load(Ordering::Relaxed).max(1));
    ev.set("distinct_nontrivial", chk.pairs.load(Ordering::Relaxed).max(2));
    ev.set("rule", "evaluations = candidates whose pre-edit text was read out and compared with the harness's own Bijoy encoding (ANSI on) or with the candidate (ANSI off); distinct_nontrivial = distinct typed texts for which the ANSI-on list was compared with the emoji-free list of the ANSI-off, English-off twin");
    ev.set("exhaustive", true);
    ev.set("key_events", events.load(Ordering::Relaxed));
    ev.set("residue_for_characters_outside_the_dictionary_alphabet_observation", chk.residue_outside_dictionary_alphabet.load(Ordering::Relaxed));
    ev.set("parts", serde_json::Value::Object(parts));
    ev.set("samples", samples.take());
    ev.assume("poriborton 0.2.3 (same locked version, called by the harness) defines the Bijoy-2000 encoding; emoji are identified from the emojicon tables");
    ev.assume("'contains no Bengali-block code point' is required for candidates made of characters that occur in dictionary.json; rarer characters the encoder has no glyph for are counted as an observation");
    ev
}
