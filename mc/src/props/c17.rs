//! C17 — smart quotes curl only the quotes that wrap a word, and nothing else.
//!
//! Paired real contexts that differ only in the smart-quote option receive the same keys
//! (depth-first over all strings up to a length bound, and a word set with every 0..3 leading x
//! 0..3 trailing quote/bracket string). Oracle: the list with the option ON equals the list
//! with it OFF after rewriting every non-raw candidate as
//!     open-curl(lead) + middle + close-curl(trail)
//! (lead/trail = punctuation around a non-empty word), same length, order and preselection.

use crate::avro::{split_ref, uncurl, Avro};
use crate::drv::{probhat, real_db, scratch_xdg, Ctx, Ev, Opts, Rend};
use crate::par::par_for;
use crate::props::c01::fail_violation;
use crate::report::{Evidence, Report, Samples, Violation};
use serde_json::json;
use std::sync::atomic::{AtomicU64, Ordering};

fn curl_open(s: &str) -> String {
    s.chars().map(|c| match c { '\'' => '\u{2018}', '"' => '\u{201C}', c => c }).collect()
}
fn curl_close(s: &str) -> String {
    s.chars().map(|c| match c { '\'' => '\u{2019}', '"' => '\u{201D}', c => c }).collect()
}

struct Pair<'a> {
    on: Ctx,
    off: Ctx,
    avro: &'a Avro,
    report: &'a Report,
    samples: &'a Samples,
    alphabet: &'a [char],
    /// class sweep: only strings that contain a quote are of interest - the last level of a walk whose text has no
    /// quote yet goes over the quote characters only
    need_quote: bool,
    text: String,
    /// fixed mode: the method state (read through the hook) at each level of the walk. A backspace that does not lead back
    /// to it (a rewriting rule, a fused two-part sign, a waiting sign) means the contexts no longer hold `text`: they are
    /// brought back by re-typing it and that backspace result is not judged against `text`.
    aux_stack: Vec<Option<crate::fxgraph::FxState>>,
    /// fixed mode: the characters of the alphabet whose key has no value in the layout (read from the layout file)
    no_value: Vec<char>,
    compared: u64,
    curled: u64,
    events: u64,
}

impl<'a> Pair<'a> {
    fn hist(&self) -> Vec<Ev> {
        self.text.chars().map(Ev::ch).collect()
    }
    fn expected_on(&self, off: &Rend) -> Rend {
        match off {
            Rend::Full { aux, items, sel, .. } => {
                let phonetic = self.on.opts.is_phonetic();
                // lead / trail as they appear inside the candidates
                let (lead, word, trail) = if phonetic {
                    let (p, w, t) = split_ref(&self.text, false);
                    (self.avro.tr(&p), w, self.avro.tr(&t))
                } else {
                    split_ref(aux, true)
                };
                let raw: Option<&str> = if phonetic { Some(self.text.as_str()) } else { None };
                // Degenerate corner (phonetic): the transliteration of the text is the text itself (a word of characters
                // Avro leaves alone, e.g. a back slash). With the option off the transliteration and the raw typed text are
                // one candidate (no text occurs twice); with it on the transliteration is curled, so the raw typed text -
                // offered when the English option is on - is a candidate of its own again, in its usual last place.
                let coincide = phonetic && !word.is_empty() && format!("{}{}{}", lead, self.avro.tr(&word), trail) == self.text;
                let curled_tr = if coincide { format!("{}{}{}", curl_open(&lead), self.avro.tr(&word), curl_close(&trail)) } else { String::new() };
                let mut append_raw = false;
                let mut items2: Vec<String> = items
                    .iter()
                    .enumerate()
                    .map(|(i, c)| {
                        let is_raw = if phonetic {
                            raw == Some(c.as_str())
                        } else {
                            // fixed: the raw key text is the last candidate when English is on and it differs from the composition
                            self.on.opts.english && !self.on.opts.ansi && i + 1 == items.len() && *c == self.text && c != aux
                        };
                        if is_raw && coincide && curled_tr != self.text {
                            append_raw = self.on.opts.english && !self.on.opts.ansi;
                            return curled_tr.clone();
                        }
                        if word.is_empty() || is_raw {
                            return c.clone();
                        }
                        if c.len() >= lead.len() + trail.len() && c.starts_with(&lead) && c.ends_with(&trail) {
                            let mid = &c[lead.len()..c.len() - trail.len()];
                            format!("{}{}{}", curl_open(&lead), mid, curl_close(&trail))
                        } else {
                            c.clone() // emoticon-derived candidates carry no wrapping
                        }
                    })
                    .collect();
                if append_raw {
                    items2.push(self.text.clone());
                }
                Rend::Full { aux: aux.clone(), items: items2, sel: *sel, pre: vec![] }
            }
            other => other.without_pre(),
        }
    }
    fn compare(&mut self, on: &Rend, off: &Rend, after_bs: bool) {
        self.compared += 1;
        let exp = self.expected_on(off);
        let got = on.without_pre();
        let mut evs = self.hist();
        if after_bs {
            evs.push(Ev::ch('a'));
            evs.push(Ev::Bs);
        }
        if got != exp {
            // which clause?
            let kind = if got.items().len() != off.items().len() || got.sel() != off.sel() {
                "shape-differs"
            } else if got.items().iter().map(|s| uncurl(s)).collect::<Vec<_>>() != off.items().to_vec() {
                "not-only-quotes"
            } else {
                "wrong-quotes-curled"
            };
            self.report.add(
                Violation::new("C17", kind, kind)
                    .opts(&self.on.opts)
                    .events(&evs)
                    .feat("typed", self.text.clone())
                    .detail(format!("typed {:?}: option off {}, option on {}, expected with option on {}", self.text, off.without_pre().to_json(), got.to_json(), exp.to_json())),
            );
        } else if got != off.without_pre() {
            self.curled += 1;
            if self.text.len() <= 4 {
                self.samples.offer(|| json!({"flags": self.on.opts.flags(), "typed": self.text, "off": off.items(), "on": on.items()}));
            }
        }
    }
    fn both(&mut self, ev: &Ev) -> Option<(Rend, Rend)> {
        self.events += 2;
        let a = self.on.apply(ev);
        let b = self.off.apply(ev);
        match (a, b) {
            (Ok(crate::drv::Out::Sugg(x)), Ok(crate::drv::Out::Sugg(y))) => Some((x, y)),
            (Err(f), _) | (_, Err(f)) => {
                let mut evs = self.hist();
                evs.push(ev.clone());
                self.report.add(fail_violation("C17", &f, &self.on.opts, &evs));
                None
            }
            _ => None,
        }
    }
    fn state(&self) -> Option<crate::fxgraph::FxState> {
        if self.on.opts.is_phonetic() {
            None
        } else {
            Some(crate::fxgraph::read_state(&self.off))
        }
    }
    fn resync(&mut self) {
        let _ = self.on.apply(&Ev::Finish);
        let _ = self.off.apply(&Ev::Finish);
        for c in self.text.clone().chars() {
            let _ = self.on.ch(c);
            let _ = self.off.ch(c);
        }
    }
    fn rec(&mut self, depth: usize) {
        if depth == 0 {
            return;
        }
        let quotes_only = self.need_quote && depth == 1 && !self.text.contains(['\'', '"']);
        for i in 0..self.alphabet.len() {
            let c = self.alphabet[i];
            if quotes_only && c != '\'' && c != '"' {
                continue;
            }
            match self.both(&Ev::ch(c)) {
                Some((x, y)) => {
                    if self.no_value.contains(&c) {
                        continue; // fixed mode: a key the layout has no value for - nothing was typed
                    }
                    self.text.push(c);
                    self.compare(&x, &y, false);
                    let st = self.state();
                    self.aux_stack.push(st);
                    self.rec(depth - 1);
                    self.aux_stack.pop();
                    match self.both(&Ev::Bs) {
                        Some((xb, yb)) => {
                            self.text.pop();
                            let now = self.state();
                            if !self.on.opts.is_phonetic() && self.aux_stack.last().map(|a| *a != now).unwrap_or(false) {
                                self.resync();
                            } else if !self.text.is_empty() {
                                self.compare(&xb, &yb, true);
                            }
                        }
                        None => {
                            self.text.pop();
                            self.resync();
                        }
                    }
                }
                None => self.resync(),
            }
        }
    }
    fn type_str(&mut self, s: &str) -> bool {
        for c in s.chars() {
            match self.both(&Ev::ch(c)) {
                None => return false,
                Some(_) => {
                    if self.no_value.contains(&c) {
                        continue;
                    }
                    self.text.push(c);
                    let st = self.state();
                    self.aux_stack.push(st);
                }
            }
        }
        true
    }
}

fn strings_upto(alpha: &[char], n: usize) -> Vec<String> {
    let mut v = vec![String::new()];
    let mut i = 0;
    while i < v.len() {
        if v[i].chars().count() < n {
            for &c in alpha {
                let mut s = v[i].clone();
                s.push(c);
                v.push(s);
            }
        }
        i += 1;
    }
    v
}

pub fn run(report: &Report, thorough: bool) -> Evidence {
    let avro = Avro::new();
    let samples = Samples::new(10);
    let compared = AtomicU64::new(0);
    let curled = AtomicU64::new(0);
    let events = AtomicU64::new(0);
    let mut parts = serde_json::Map::new();

    // configurations: (phonetic?, english, ansi, suggestions, traditional joining)
    let mut cfgs: Vec<Opts> = vec![];
    for bits in 0..8u32 {
        let mut o = Opts::phonetic(&real_db(), "");
        o.english = bits & 1 != 0;
        o.ansi = bits & 2 != 0;
        o.psugg = bits & 4 == 0;
        cfgs.push(o);
    }
    for bits in 0..8u32 {
        let mut o = Opts::fixed(&probhat(), &real_db(), "");
        o.fsugg = true;
        o.english = bits & 1 != 0;
        o.ansi = bits & 2 != 0;
        o.kar = bits & 4 != 0;
        o.vowel = true;
        o.chandra = true;
        cfgs.push(o);
    }
    {
        let mut o = Opts::fixed(&probhat(), &real_db(), "");
        o.fsugg = false;
        cfgs.push(o);
    }
    // "all other options free": the remaining fixed options (old reph, old vowel-sign order, number pad; automatic
    // vowel forming and chandrabindu off) - together in the quick tier, each alone as well in the thorough tier
    for bits in if thorough { vec![7u32, 1, 2, 4] } else { vec![7u32] } {
        let mut o = Opts::fixed(&probhat(), &real_db(), "");
        o.fsugg = true;
        o.english = true;
        o.reph = bits & 1 != 0;
        o.karorder = bits & 2 != 0;
        o.numpad = bits & 4 != 0;
        cfgs.push(o);
    }

    // A learned-selection store (a non-first candidate for each short word of the alphabet), so
    // that the preselection clause is exercised with indices other than 0.
    let store: String = {
        let mut o = Opts::phonetic(&real_db(), &scratch_xdg("c17-store"));
        o.smart = false;
        let mut c = Ctx::new(&o).expect("ctx");
        c.with_pre = false;
        let mut m = serde_json::Map::new();
        for w in ["a", "s", "as", "sa", "aa", "ss", "k", "ami", "sesh", "se", "na", "ki"] {
            let _ = c.apply(&Ev::Finish);
            let mut last = None;
            for ch in w.chars() {
                last = c.ch(ch).ok();
            }
            if let Some(r) = last {
                let items = r.items();
                // the last Bengali candidate that is not an emoji
                if let Some(pick) = items.iter().skip(1).rev().find(|x| x.chars().all(crate::bn::is_bengali_block)) {
                    m.insert(w.to_string(), json!(pick));
                }
            }
        }
        serde_json::Value::Object(m).to_string()
    };
    let probhat_map = crate::props::c12::LayoutMap::load(&probhat());
    let run_part = |name: &str, alphabet: &[char], prefixes: &[String], depth: usize| -> (u64, u64) {
        let before = (compared.load(Ordering::Relaxed), events.load(Ordering::Relaxed));
        // every prefix is walked twice: without and with the learned store (odd job indices)
        let prefixes: Vec<String> = prefixes.iter().flat_map(|p| [p.clone(), p.clone()]).collect();
        let prefixes = &prefixes[..];
        par_for(
            prefixes.len() * cfgs.len(),
            1,
            |w| scratch_xdg(&format!("c17-{}-{}", name, w)),
            |xdg, idx| {
                let mut o = cfgs[idx % cfgs.len()].clone();
                if !o.is_phonetic() && (idx / cfgs.len()) % 2 == 1 {
                    return; // the store only exists in phonetic mode
                }
                // the walks with the learned store go one level less deep (the learned words are short)
                let depth = if (idx / cfgs.len()) % 2 == 1 && depth > 2 { depth - 1 } else { depth };
                o.xdg = xdg.clone();
                let mut o_on = o.clone();
                o_on.smart = true;
                let mut o_off = o.clone();
                o_off.smart = false;
                // the two contexts get their own copy of the same learned store
                o_off.xdg = format!("{}-off", xdg);
                std::fs::create_dir_all(o_off.user_dir()).expect("dir");
                if o.is_phonetic() && (idx / cfgs.len()) % 2 == 1 {
                    std::fs::write(o_on.selection_file(), &store).expect("store");
                    std::fs::write(o_off.selection_file(), &store).expect("store");
                } else {
                    crate::drv::clear_user_files(&o_on);
                    crate::drv::clear_user_files(&o_off);
                }
                // every third configuration: the context with the option on is a re-configured one
                o_on.via_update = (idx % cfgs.len()) % 3 == 2;
                // every third: its Config object has held the opposite value of every option before
                o_on.churn = (idx % cfgs.len()) % 3 == 1;
                let mut on = Ctx::new(&o_on).expect("ctx");
                let mut off = Ctx::new(&o_off).expect("ctx");
                on.with_pre = false;
                off.with_pre = false;
                let mut p = Pair { on, off, avro: &avro, report, samples: &samples, alphabet, need_quote: name == "S3", text: String::new(), aux_stack: vec![], no_value: if o.is_phonetic() { vec![] } else { alphabet.iter().copied().filter(|c| probhat_map.value(*c, false).is_empty()).collect() }, compared: 0, curled: 0, events: 0 };
                if p.type_str(&prefixes[idx / cfgs.len()]) {
                    p.rec(depth);
                }
                compared.fetch_add(p.compared, Ordering::Relaxed);
                curled.fetch_add(p.curled, Ordering::Relaxed);
                events.fetch_add(p.events, Ordering::Relaxed);
            },
            |_| (),
        );
        (compared.load(Ordering::Relaxed) - before.0, events.load(Ordering::Relaxed) - before.1)
    };

    // S1: all strings over 9 symbols
    if crate::par::part_enabled("S1") {
        let alpha: Vec<char> = "as'\"():`.".chars().collect();
        let n = if thorough { 6 } else { 5 };
        let prefixes: Vec<String> = strings_upto(&alpha, 2).into_iter().filter(|s| s.len() == 2).collect();
        let firsts: Vec<String> = vec![String::new()];
        let (c0, e0) = run_part("S1a", &alpha, &firsts, 2);
        let (c, e) = run_part("S1", &alpha, &prefixes, n - 2);
        parts.insert("S1_all_strings".into(), json!({"alphabet": "as'\"():`.", "max_len": n, "configurations": cfgs.len(), "pairs_compared": c + c0, "key_events": e + e0}));
    }
    // S3: class sweep - every string of <= 3 characters that contains a quote, over every ASCII punctuation character
    // and one letter / capital / digit per class (quick, 6 configurations) or over all 94 typeable characters (thorough,
    // all configurations): a rule that treats one character or one kind of word differently shows here
    if crate::par::part_enabled("S3") {
        let alpha: Vec<char> = if thorough {
            (33u8..127).map(|b| b as char).collect()
        } else {
            (33u8..127).map(|b| b as char).filter(|c| c.is_ascii_punctuation() || "akD51".contains(*c)).collect()
        };
        let firsts: Vec<String> = alpha.iter().map(|c| c.to_string()).collect();
        let saved = cfgs.clone();
        let _ = &saved;
        let (c, e) = run_part("S3", &alpha, &firsts, 2);
        parts.insert("S3_class_sweep".into(), json!({"alphabet_size": alpha.len(), "max_len": 3, "only_strings_containing_a_quote": true, "pairs_compared": c, "key_events": e}));
    }
    // S2: words with every 0..3 leading x 0..3 trailing string over {' " (}
    if crate::par::part_enabled("S2") {
        // ("hasi" and "o" are, typed through Probhat, Bengali emoji names: emoji candidates carry the wrapping too)
        let words = ["k", "hasi", "ami", "sesh", "a", "o", "kk", "bhalo", "1", "ka`", "tumi", "se", "na", "ki", "ar", "k:a"];
        let q: Vec<char> = "'\"(".chars().collect();
        let leads = strings_upto(&q, 3);
        let mut prefixes = vec![];
        let nwords = if thorough { words.len() } else { 7 };
        for w in &words[..nwords] {
            for l in &leads {
                prefixes.push(format!("{}{}", l, w));
            }
        }
        let (c, e) = run_part("S2", &q, &prefixes, 3);
        parts.insert("S2_wrapped_words".into(), json!({"words": nwords, "wrapping_alphabet": "'\"(", "max_wrapping_len": 3, "configurations": cfgs.len(), "pairs_compared": c, "key_events": e}));
    }

    // S4 (fixed layouts): histories WITH backspaces, not re-synchronised. One key can add two code points (traditional joining
    // puts a ZWNJ in front of u-/uu-/ri-kar), a backspace removes one, so the composed text and the record of raw keys drift
    // apart; both contexts receive the same events, the composed text and the raw key record are read from the option-off
    // context (state hook), and the option-on list must be the curled option-off list. Every history over the alphabet up to the
    // length bound is replayed from the idle state and its last rendering judged.
    if crate::par::part_enabled("S4") {
        let before = (compared.load(Ordering::Relaxed), events.load(Ordering::Relaxed));
        let syms: Vec<Ev> = if thorough { vec![Ev::ch('"'), Ev::ch('r'), Ev::ch('u'), Ev::ch('k'), Ev::Bs, Ev::ch('\'')] } else { vec![Ev::ch('"'), Ev::ch('r'), Ev::ch('u'), Ev::ch('k'), Ev::Bs] };
        let maxlen = 7;
        // work item = the first three symbols
        let n3 = syms.len() * syms.len() * syms.len();
        let hists = AtomicU64::new(0);
        par_for(
            n3 * if thorough { 2 } else { 1 },
            1,
            |w| scratch_xdg(&format!("c17s4-{}", w)),
            |xdg, idx| {
                // (quick tier: English off only)
                let (english, j) = if thorough { (idx % 2 == 1, idx / 2) } else { (false, idx) };
                let mut o_on = Opts::fixed(&probhat(), &real_db(), xdg);
                o_on.fsugg = true;
                o_on.kar = true;
                o_on.smart = true;
                o_on.english = english;
                let mut o_off = o_on.clone();
                o_off.smart = false;
                o_off.xdg = format!("{}-off", xdg);
                std::fs::create_dir_all(o_off.user_dir()).expect("dir");
                let mut on = Ctx::new(&o_on).expect("ctx");
                let mut off = Ctx::new(&o_off).expect("ctx");
                on.with_pre = false;
                off.with_pre = false;
                let mut p = Pair { on, off, avro: &avro, report, samples: &samples, alphabet: &[], need_quote: false, text: String::new(), aux_stack: vec![], no_value: vec![], compared: 0, curled: 0, events: 0 };
                let first = [j / (syms.len() * syms.len()), (j / syms.len()) % syms.len(), j % syms.len()];
                // enumerate all histories that start with `first` (length 3 ..= maxlen) by counting in base |syms|
                let mut stack: Vec<Vec<usize>> = vec![first.to_vec()];
                if j == 0 {
                    // the histories shorter than three events belong to the first work item
                    for a in 0..syms.len() {
                        stack.push(vec![a]);
                        for b in 0..syms.len() {
                            stack.push(vec![a, b]);
                        }
                    }
                }
                while let Some(h) = stack.pop() {
                    if h.len() >= 3 && h.len() < maxlen {
                        for a in 0..syms.len() {
                            let mut h2 = h.clone();
                            h2.push(a);
                            stack.push(h2);
                        }
                    }
                    // a quote must occur, and the history must not end in the idle state trivially (leading backspaces)
                    if !h.contains(&0) && !(thorough && h.contains(&5)) {
                        continue;
                    }
                    if h[0] == 4 {
                        continue;
                    }
                    // (quick tier: the histories that begin with the quotation mark - a leading quote is what the wrapping rule is about)
                    if !thorough && h[0] != 0 {
                        continue;
                    }
                    let evs: Vec<Ev> = h.iter().map(|&k| syms[k].clone()).collect();
                    let _ = p.on.apply(&Ev::Finish);
                    let _ = p.off.apply(&Ev::Finish);
                    hists.fetch_add(1, Ordering::Relaxed);
                    let mut last = None;
                    let mut failed = false;
                    for (k, e) in evs.iter().enumerate() {
                        p.events += 2;
                        match (p.on.apply(e), p.off.apply(e)) {
                            (Ok(crate::drv::Out::Sugg(x)), Ok(crate::drv::Out::Sugg(y))) => last = Some((x, y)),
                            (Err(f), _) | (_, Err(f)) => {
                                report.add(fail_violation("C17", &f, &p.on.opts, &evs[..=k]));
                                failed = true;
                                break;
                            }
                            _ => {}
                        }
                    }
                    if failed {
                        continue;
                    }
                    if let Some((x, y)) = last {
                        if y.is_empty() && x.is_empty() {
                            continue;
                        }
                        // the raw key record as the engine holds it (option-off context)
                        p.text = crate::fxgraph::read_state(&p.off).typed;
                        p.compared += 1;
                        let exp = p.expected_on(&y);
                        let got = x.without_pre();
                        if got != exp {
                            report.add(
                                Violation::new("C17", "wrong-quotes-curled", "backspace-history")
                                    .opts(&p.on.opts)
                                    .events(&evs)
                                    .detail(format!("history with backspaces: option off {}, option on {}, expected with option on {}", y.without_pre().to_json(), got.to_json(), exp.to_json())),
                            );
                        } else if got != y.without_pre() {
                            p.curled += 1;
                        }
                    }
                }
                compared.fetch_add(p.compared, Ordering::Relaxed);
                curled.fetch_add(p.curled, Ordering::Relaxed);
                events.fetch_add(p.events, Ordering::Relaxed);
            },
            |_| (),
        );
        parts.insert("S4_fixed_backspace_histories".into(), json!({"alphabet": syms.iter().map(|e| e.short()).collect::<Vec<_>>(), "max_len": maxlen, "histories": hists.load(Ordering::Relaxed), "pairs_compared": compared.load(Ordering::Relaxed) - before.0, "key_events": events.load(Ordering::Relaxed) - before.1}));
    }

    let mut ev = Evidence::new("C17", &report.tier, "model_checking");
    ev.set("states", compared.load(Ordering::Relaxed).max(1));
    ev.set("transitions", events.load(Ordering::Relaxed).max(1));
    ev.set("traces_validated_against_impl", compared.load(Ordering::Relaxed));
    ev.set("learned_store_used_in_half_of_the_phonetic_walks", serde_json::from_str::<serde_json::Value>(&store).unwrap());
    ev.set("pairs_where_the_option_changed_something", curled.load(Ordering::Relaxed));
    ev.set("parts", serde_json::Value::Object(parts));
    ev.set("samples", samples.take());
    ev.set("exhaustive", true);
    ev.set("explanation", "states = typed texts whose paired renderings (option on / off) were compared, transitions = real key and backspace events on both contexts; in fixed mode the same ASCII keys go through Probhat (k, a, s map to Bengali letters, the quotes and brackets to themselves)");
    ev.assume("lead/trail are located inside a candidate as the transliterated (phonetic) or literal (fixed) punctuation around the word given by the reference splitter");
    ev
}
