//! C18 — every emoticon and emoji name in the tables produces its emoji.
//!
//! The three emojicon tables (read through the crate's `internal` API by the harness) are
//! enumerated completely: every emoticon (phonetic and fixed), every English name (phonetic),
//! every Bengali name (fixed, typed through the inverse Probhat map), bare and wrapped.
//! Third clause: the non-emoji candidates equal those of an ANSI twin (no emoji, no English):
//! exactly in phonetic mode; up to permutation inside a distance tie and the cut at nine in
//! fixed mode.

use crate::avro::{split_ref, Avro};
use crate::data::InverseLayout;
use crate::drv::{probhat, real_db, scratch_xdg, Ctx, Ev, Opts, Out, Rend};
use crate::histgraph;
use crate::par::par_for;
use crate::props::c01::fail_violation;
use crate::report::{Evidence, Report, Samples, Violation};
use serde_json::json;
use std::collections::{BTreeMap, HashSet};
use std::sync::atomic::{AtomicU64, Ordering};

fn curl_open(s: &str) -> String {
    s.chars().map(|c| match c { '\'' => '\u{2018}', '"' => '\u{201C}', c => c }).collect()
}
fn curl_close(s: &str) -> String {
    s.chars().map(|c| match c { '\'' => '\u{2019}', '"' => '\u{201D}', c => c }).collect()
}

fn type_all(ctx: &mut Ctx, evs: &[Ev], report: &Report) -> Option<Rend> {
    let files = BTreeMap::new();
    let r = histgraph::replay(ctx, &files, evs);
    if let Some((i, f)) = r.failed_at {
        report.add(fail_violation("C18", &f, &ctx.opts, &evs[..=i.min(evs.len() - 1)]));
        return None;
    }
    r.shown
}

/// The ways an emoticon is typed: bare; after the word `k` ended by finish / commit / ctrl-backspace /
/// backspace; and with a key that produces nothing (keypad Enter; in fixed mode also a keypad digit
/// while the number-pad option is off) pressed just before it or after its first character.
fn emoticon_histories(e: &str, phonetic: bool, numpad_on: bool) -> Vec<Vec<Ev>> {
    let typed: Vec<Ev> = e.chars().map(Ev::ch).collect();
    let kp = |n: &str| Ev::key(crate::keys::by_name(n).unwrap().code);
    let mut v: Vec<Vec<Ev>> = vec![];
    for pre in [vec![], vec![Ev::ch('k'), Ev::Finish], vec![Ev::ch('k'), Ev::Commit(0)], vec![Ev::ch('k'), Ev::CtrlBs], vec![Ev::ch('k'), Ev::Bs]] {
        v.push(pre.into_iter().chain(typed.iter().cloned()).collect());
    }
    // ... and after an EMOTICON whose second / third candidate (the literal typed text, the transliteration) was committed:
    // a composition without a word part ended by a commit that has something to learn
    for i in [1usize, 2] {
        if !phonetic && i == 2 {
            continue; // (fixed method: the list of an emoticon is the typed text and its emoji)
        }
        v.push([Ev::ch(':'), Ev::ch(')'), Ev::Commit(i)].into_iter().chain(typed.iter().cloned()).collect());
    }
    // the same characters from the number pad's keys (phonetic: always; fixed: while the number-pad option is on)
    if phonetic || numpad_on {
        let kp_typed: Vec<Ev> = e.chars().map(|c| crate::keys::KEYS.iter().find(|k| k.numpad && k.ch == Some(c)).map(|k| Ev::key(k.code)).unwrap_or_else(|| Ev::ch(c))).collect();
        if kp_typed != typed {
            v.push(kp_typed);
        }
    }
    let mut noops = vec![kp("VC_KP_ENTER")];
    if !phonetic && !numpad_on {
        noops.push(kp("VC_KP_5"));
    }
    for n in noops {
        v.push(std::iter::once(n.clone()).chain(typed.iter().cloned()).collect());
        let mut mid = typed.clone();
        mid.insert(1.min(mid.len()), n);
        v.push(mid);
    }
    v
}

/// is `sub` a subsequence of `list` (in order)?
fn in_order(list: &[String], sub: &[String]) -> bool {
    let mut it = list.iter();
    sub.iter().all(|s| it.any(|x| x == s))
}

pub fn run(report: &Report, thorough: bool) -> Evidence {
    let avro = Avro::new();
    let emoticons: BTreeMap<String, String> = emojicon::internal::emoticons().into_iter().map(|(k, v)| (k.to_string(), v.to_string())).collect();
    let names: BTreeMap<String, Vec<String>> = emojicon::internal::emojis().into_iter().map(|(k, v)| (k.to_string(), v.iter().map(|s| s.to_string()).collect())).collect();
    let bn_names: BTreeMap<String, Vec<String>> = emojicon::internal::bn_emojis().into_iter().map(|(k, v)| (k.to_string(), v.iter().map(|s| s.to_string()).collect())).collect();
    let emoji_set: HashSet<String> = crate::props::c15::emoji_set();
    let inv = InverseLayout::load(&probhat());
    let samples = Samples::new(10);
    let checked = AtomicU64::new(0);
    let nontrivial = AtomicU64::new(0);
    let untypeable = AtomicU64::new(0);
    let zwnj_names = AtomicU64::new(0);
    let mut parts = serde_json::Map::new();

    let typeable = |s: &str| s.chars().all(|c| crate::keys::code_for_char(c).is_some());

    // phonetic configurations: (english, smart)
    let ph_cfgs: Vec<(bool, bool)> = if thorough { vec![(false, true), (true, true), (false, false), (true, false)] } else { vec![(false, true), (true, false)] };
    let wraps: Vec<(&str, &str)> = if thorough { vec![("", ""), ("(", ")"), ("\"", "\""), ("", "."), ("'", "?"), ("[", "]")] } else { vec![("", ""), ("(", ")"), ("\"", "\""), ("", ".")] };

    // ---------- phonetic: emoticons ----------
    {
        let list: Vec<(&String, &String)> = emoticons.iter().collect();
        par_for(
            list.len(),
            4,
            |w| {
                let xdg = scratch_xdg(&format!("c18pe-{}", w));
                ph_cfgs
                    .iter()
                    .enumerate()
                    .map(|(ci, &(english, smart))| {
                        let mut o = Opts::phonetic(&real_db(), &xdg);
                        o.english = english;
                        o.smart = smart;
                        // the last configuration is reached through update_engine (a live, re-configured context)
                        o.via_update = ci + 1 == ph_cfgs.len();
                        // (the first configuration: a context created for a fixed layout and switched over by update-engine)
                        o.via_switch = ci == 0;
                        let mut c = Ctx::new(&o).expect("ctx");
                        c.with_pre = false;
                        c
                    })
                    .collect::<Vec<_>>()
            },
            |ctxs, i| {
                let (e, emoji) = list[i];
                if !typeable(e) {
                    untypeable.fetch_add(1, Ordering::Relaxed);
                    return;
                }
                // bare, and after an earlier word ended in each of the four ways (same context)
                for evs in emoticon_histories(e, true, false) {
                for ctx in ctxs.iter_mut() {
                    if ctx.opts.ansi && evs.iter().any(|x| matches!(x, Ev::Commit(i) if *i > 0)) {
                        continue; // (no emoji under ANSI: the index would be outside the list)
                    }
                    let Some(r) = type_all(ctx, &evs, report) else { continue };
                    checked.fetch_add(1, Ordering::Relaxed);
                    nontrivial.fetch_add(1, Ordering::Relaxed);
                    let items = r.items();
                    if !items.contains(emoji) {
                        report.add(Violation::new("C18", "emoticon-emoji-missing", "emoticon-emoji-missing:phonetic").opts(&ctx.opts).events(&evs).feat("emoticon", e.clone()).detail(format!("emoticon {:?}: emoji {:?} not among {:?}", e, emoji, items)));
                    }
                    if !items.contains(e) {
                        report.add(Violation::new("C18", "emoticon-literal-missing", "emoticon-literal-missing").opts(&ctx.opts).events(&evs).feat("emoticon", e.clone()).detail(format!("emoticon {:?}: the literal typed text is not among {:?}", e, items)));
                    }
                    if e.len() == 3 {
                        samples.offer(|| json!({"kind": "emoticon/phonetic", "typed": e, "result": items}));
                    }
                }
                }
            },
            |_| (),
        );
        parts.insert("phonetic_emoticons".into(), json!({"table_entries": emoticons.len(), "configurations": ph_cfgs.len()}));
    }

    // ---------- phonetic: English names ----------
    {
        let list: Vec<(&String, &Vec<String>)> = names.iter().collect();
        par_for(
            list.len(),
            4,
            |w| {
                let xdg = scratch_xdg(&format!("c18pn-{}", w));
                ph_cfgs
                    .iter()
                    .enumerate()
                    .map(|(ci, &(english, smart))| {
                        let mk = |ansi: bool| {
                            let mut o = Opts::phonetic(&real_db(), &xdg);
                            o.english = english;
                            o.smart = smart;
                            o.ansi = ansi;
                            o.via_update = ci + 1 == ph_cfgs.len();
                        // (the first configuration: a context created for a fixed layout and switched over by update-engine)
                        o.via_switch = ci == 0;
                            let mut c = Ctx::new(&o).expect("ctx");
                            c.with_pre = false;
                            c
                        };
                        (mk(false), mk(true))
                    })
                    .collect::<Vec<_>>()
            },
            |ctxs, i| {
                let (name, emojis) = list[i];
                if !typeable(name) {
                    untypeable.fetch_add(1, Ordering::Relaxed);
                    return;
                }
                for (l, t) in &wraps {
                    let text = format!("{}{}{}", l, name, t);
                    // the wrapped clause needs the name to be the word of the split
                    let (sp, sw, st) = split_ref(&text, false);
                    if !(l.is_empty() && t.is_empty()) && sw != *name {
                        continue;
                    }
                    let evs: Vec<Ev> = text.chars().map(Ev::ch).collect();
                    for (ctx, twin) in ctxs.iter_mut() {
                        let Some(r) = type_all(ctx, &evs, report) else { continue };
                        checked.fetch_add(1, Ordering::Relaxed);
                        let items = r.items().to_vec();
                        // an emoticon takes the whole text: the name clause then does not apply
                        let is_emoticon = emoticons.contains_key(&text);
                        let (lead, trail) = if sw == *name {
                            let (a, b) = (avro.tr(&sp), avro.tr(&st));
                            if ctx.opts.smart { (curl_open(&a), curl_close(&b)) } else { (a, b) }
                        } else {
                            (String::new(), String::new())
                        };
                        let expect: Vec<String> = emojis.iter().map(|e| format!("{}{}{}", lead, e, trail)).collect();
                        if !is_emoticon {
                            nontrivial.fetch_add(1, Ordering::Relaxed);
                            if !expect.iter().all(|e| items.contains(e)) {
                                report.add(
                                    Violation::new("C18", "name-emoji-missing", &format!("name-emoji-missing:phonetic:{}", if sw == *name { "word" } else { "name-has-punctuation" }))
                                        .opts(&ctx.opts)
                                        .events(&evs)
                                        .feat("name", name.clone())
                                        .feat("name_is_split_word", (sw == *name).to_string())
                                        .detail(format!("typed {:?}: emoji {:?} of name {:?} not all among {:?}", text, expect, name, items)),
                                );
                            } else if !in_order(&items, &expect) {
                                report.add(Violation::new("C18", "name-emoji-order", "name-emoji-order:phonetic").opts(&ctx.opts).events(&evs).feat("name", name.clone()).detail(format!("typed {:?}: emoji not in table order {:?}: {:?}", text, expect, items)));
                            } else if emojis.len() > 1 {
                                samples.offer(|| json!({"kind": "name/phonetic", "typed": text, "table": emojis, "result": items}));
                            }
                        }
                        // the raw typed text is a non-emoji candidate too: emoji must not remove it
                        if ctx.opts.english && !is_emoticon && !items.contains(&text) {
                            report.add(Violation::new("C18", "non-emoji-candidates-changed", "raw-text-removed:phonetic").opts(&ctx.opts).events(&evs).feat("name", name.clone()).detail(format!("typed {:?} with the English option on: the raw typed text is not among {:?}", text, items)));
                        }
                        // third clause: non-emoji candidates == ANSI twin's list
                        let Some(ra) = type_all(twin, &evs, report) else { continue };
                        let a: Vec<String> = ra.items().to_vec();
                        let b: Vec<String> = items
                            .iter()
                            .filter(|c| {
                                let inner = if c.len() >= lead.len() + trail.len() && c.starts_with(&lead) && c.ends_with(&trail) { &c[lead.len()..c.len() - trail.len()] } else { c.as_str() };
                                !(emoji_set.contains(inner) || emoji_set.contains(c.as_str()) || **c == text)
                            })
                            .cloned()
                            .collect();
                        // the ANSI twin may itself contain the typed text as transliteration of pure punctuation
                        let a2: Vec<String> = a.iter().filter(|c| **c != text).cloned().collect();
                        if b != a2 {
                            report.add(Violation::new("C18", "non-emoji-candidates-changed", "non-emoji-candidates-changed:phonetic").opts(&ctx.opts).events(&evs).feat("name", name.clone()).detail(format!("typed {:?}: non-emoji candidates {:?}, emoji-free ANSI twin {:?}", text, b, a2)));
                        }
                    }
                }
            },
            |_| (),
        );
        parts.insert("phonetic_english_names".into(), json!({"table_entries": names.len(), "configurations": ph_cfgs.len(), "wrappings": wraps.len()}));
    }

    // ---------- fixed: emoticons and Bengali names ----------
    {
        // (kar, smart, english)
        let fx_cfgs: Vec<(bool, bool, bool)> = if thorough { vec![(false, true, false), (true, true, true), (false, false, true), (true, false, false)] } else { vec![(false, true, false), (true, false, true)] };
        let mk_ctxs = |xdg: &str| {
            fx_cfgs
                .iter()
                .enumerate()
                .map(|(ci, &(kar, smart, english))| {
                    let mk = |ansi: bool| {
                        let mut o = Opts::fixed(&probhat(), &real_db(), xdg);
                        o.fsugg = true;
                        o.kar = kar;
                        o.smart = smart;
                        o.english = english;
                        o.ansi = ansi;
                        o.via_update = ci + 1 == fx_cfgs.len();
                        o.via_switch = ci == 0;
                        // ... and has the number-pad option on (emoticons typed with the number pad's keys)
                        o.numpad = ci + 1 == fx_cfgs.len();
                        let mut c = Ctx::new(&o).expect("ctx");
                        c.with_pre = false;
                        c
                    };
                    (mk(false), mk(true))
                })
                .collect::<Vec<_>>()
        };
        let elist: Vec<(&String, &String)> = emoticons.iter().collect();
        par_for(
            elist.len(),
            4,
            |w| mk_ctxs(&scratch_xdg(&format!("c18fe-{}", w))),
            |ctxs, i| {
                let (e, emoji) = elist[i];
                if !typeable(e) {
                    return;
                }
                // (every main-zone key of Probhat has a value, so the raw key text is the emoticon)
                for (ctx, _) in ctxs.iter_mut() {
                for evs in emoticon_histories(e, false, ctx.opts.numpad) {
                    if ctx.opts.ansi && evs.iter().any(|x| matches!(x, Ev::Commit(i) if *i > 0)) {
                        continue;
                    }
                    let Some(r) = type_all(ctx, &evs, report) else { continue };
                    checked.fetch_add(1, Ordering::Relaxed);
                    nontrivial.fetch_add(1, Ordering::Relaxed);
                    if !r.items().contains(emoji) {
                        report.add(Violation::new("C18", "emoticon-emoji-missing", "emoticon-emoji-missing:fixed").opts(&ctx.opts).events(&evs).feat("emoticon", e.clone()).detail(format!("emoticon {:?} typed in fixed mode: emoji {:?} not among {:?}", e, emoji, r.items())));
                    }
                }
                }
            },
            |_| (),
        );
        let blist: Vec<(&String, &Vec<String>)> = bn_names.iter().collect();
        let fwraps: Vec<(&str, &str)> = vec![("", ""), ("(", ")"), ("\"", "\""), ("", "\u{0964}")];
        par_for(
            blist.len(),
            4,
            |w| mk_ctxs(&scratch_xdg(&format!("c18fb-{}", w))),
            |ctxs, i| {
                let (name, emojis) = blist[i];
                for (l, t) in &fwraps {
                    let text = format!("{}{}{}", l, name, t);
                    let Some(evs) = inv.events(&text) else {
                        if l.is_empty() && t.is_empty() {
                            untypeable.fetch_add(1, Ordering::Relaxed);
                        }
                        continue;
                    };
                    let (sp, sw, st) = split_ref(&text, true);
                    if !(l.is_empty() && t.is_empty()) && sw != *name {
                        continue;
                    }
                    for (ctx, twin) in ctxs.iter_mut() {
                        let Some(r) = type_all(ctx, &evs, report) else { continue };
                        let Rend::Full { aux, items, .. } = &r else { continue };
                        if *aux != text {
                            // traditional joining inserted a non-joiner (or a built-in rule rewrote the text):
                            // the composed text is not the name, the statement does not apply
                            if aux.contains(crate::bn::ZWNJ) {
                                zwnj_names.fetch_add(1, Ordering::Relaxed);
                            }
                            continue;
                        }
                        checked.fetch_add(1, Ordering::Relaxed);
                        nontrivial.fetch_add(1, Ordering::Relaxed);
                        let (lead, trail) = if sw == *name && ctx.opts.smart { (curl_open(&sp), curl_close(&st)) } else if sw == *name { (sp.clone(), st.clone()) } else { (String::new(), String::new()) };
                        let expect: Vec<String> = emojis.iter().map(|e| format!("{}{}{}", lead, e, trail)).collect();
                        if !expect.iter().all(|e| items.contains(e)) {
                            // the cap of nine (C15) can cut a long emoji list: only a missing emoji in a list shorter than nine is a violation
                            if items.len() < 9 {
                                report.add(
                                    Violation::new("C18", "name-emoji-missing", &format!("name-emoji-missing:fixed:{}", if sw == *name { "word" } else { "name-has-punctuation" }))
                                        .opts(&ctx.opts)
                                        .events(&evs)
                                        .feat("name", crate::bn::esc(name))
                                        .feat("name_is_split_word", (sw == *name).to_string())
                                        .detail(format!("typed {:?}: emoji {:?} not all among {:?}", text, expect, items)),
                                );
                            }
                        } else if !in_order(items, &expect) {
                            report.add(Violation::new("C18", "name-emoji-order", "name-emoji-order:fixed").opts(&ctx.opts).events(&evs).feat("name", crate::bn::esc(name)).detail(format!("typed {:?}: emoji not in table order {:?}: {:?}", text, expect, items)));
                        } else if emojis.len() > 2 {
                            samples.offer(|| json!({"kind": "name/fixed", "typed": text, "table": emojis, "result": items}));
                        }
                        // third clause, tie-insensitive
                        let Some(ra) = type_all(twin, &evs, report) else { continue };
                        let strip = |c: &String| -> String {
                            if c.len() >= lead.len() + trail.len() && c.starts_with(&lead) && c.ends_with(&trail) { c[lead.len()..c.len() - trail.len()].to_string() } else { c.clone() }
                        };
                        let raw = crate::fxgraph::read_state(ctx).typed;
                        let b: Vec<String> = items.iter().filter(|c| !(emoji_set.contains(&strip(c)) || emoji_set.contains(c.as_str()) || (ctx.opts.english && **c == raw && *c != aux))).map(|c| strip(c)).collect();
                        let a: Vec<String> = ra.items().iter().map(|c| strip(c)).collect();
                        let dist = |c: &String| edit_distance::edit_distance(&sw, c);
                        let db: Vec<usize> = b.iter().skip(1).map(dist).collect();
                        let da: Vec<usize> = a.iter().skip(1).map(dist).collect();
                        let mut ok = b.first() == a.first() && db.windows(2).all(|w| w[0] <= w[1]) && db.len() <= da.len() && db[..] == da[..db.len()];
                        if ok {
                            if let Some(&last) = db.last() {
                                let sb: HashSet<&String> = b.iter().skip(1).filter(|c| dist(c) < last).collect();
                                let sa: HashSet<&String> = a.iter().skip(1).filter(|c| dist(c) < last).collect();
                                ok = sb == sa;
                            }
                        }
                        if !ok {
                            report.add(Violation::new("C18", "non-emoji-candidates-changed", "non-emoji-candidates-changed:fixed").opts(&ctx.opts).events(&evs).feat("name", crate::bn::esc(name)).detail(format!("typed {:?}: non-emoji candidates {:?}, emoji-free ANSI twin {:?}", text, b, a)));
                        }
                    }
                }
            },
            |_| (),
        );
        parts.insert("fixed_emoticons_and_bengali_names".into(), json!({"emoticons": emoticons.len(), "bengali_names": bn_names.len(), "configurations": fx_cfgs.len(), "wrappings": fwraps.len()}));
    }

    let mut ev = Evidence::new("C18", &report.tier, "exploration");
    ev.set("evaluations", checked.load(Ordering::Relaxed));
    ev.set("distinct_nontrivial", nontrivial.load(Ordering::Relaxed));
    ev.set("rule", "the three emojicon tables are enumerated completely; each entry is typed (bare and wrapped) under each configuration; evaluations = lists judged, non-trivial = lists for which a table entry demands emoji (distinct (entry, wrapping, configuration) triples)");
    ev.set("exhaustive", true);
    ev.set("parts", serde_json::Value::Object(parts));
    ev.set("entries_not_typeable", untypeable.load(Ordering::Relaxed));
    ev.set("zwnj_names_without_emoji_observation", zwnj_names.load(Ordering::Relaxed));
    ev.set("samples", samples.take());
    ev.assume("emojicon 0.4.0 tables read through the crate's `internal` feature by the harness");
    ev.assume("typing a name = a history whose composed text equals the table entry; with traditional joining names that compose to a text with ZWNJ are outside the statement (counted as observation)");
    ev.assume("fixed mode: a long emoji list may be cut by the cap of nine candidates (C15); emoji missing from a full list of nine are not counted");
    ev
}
