use crate::report::{Evidence, Report};

pub mod c04;
pub mod c12;

pub fn lookup(id: &str) -> Option<fn(&Report, bool) -> Evidence> {
    Some(match id {
        "C04" => c04::run,
        "C12" => c12::run,
        _ => return None,
    })
}
