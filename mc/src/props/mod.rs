use crate::report::{Evidence, Report};

pub mod c01;
pub mod c02;
pub mod c03;
pub mod c04;
pub mod c05;
pub mod c06;
pub mod c07;
pub mod c09;
pub mod c10;
pub mod c11;
pub mod c12;
pub mod c13;
pub mod c14;
pub mod c15;
pub mod c16;
pub mod c17;
pub mod c18;

pub fn lookup(id: &str) -> Option<fn(&Report, bool) -> Evidence> {
    Some(match id {
        "C01" => c01::run,
        "C02" => c02::run,
        "C03" => c03::run,
        "C04" => c04::run,
        "C05" => c05::run,
        "C06" => c06::run,
        "C07" => c07::run,
        "C08" => c07::run_c08,
        "C09" => c09::run,
        "C10" => c10::run,
        "C11" => c11::run,
        "C12" => c12::run,
        "C13" => c13::run,
        "C14" => c14::run,
        "C15" => c15::run,
        "C16" => c16::run,
        "C17" => c17::run,
        "C18" => c18::run,
        _ => return None,
    })
}
