//! Re-execute a replay file against the real code, printing every observation.

use crate::drv::{clear_user_files, scratch_xdg, Ctx, Ev, Opts, Out};
use serde_json::Value;

pub fn replay_file(path: &str) -> Result<(), String> {
    let text = std::fs::read_to_string(path).map_err(|e| e.to_string())?;
    let v: Value = serde_json::from_str(&text).map_err(|e| e.to_string())?;
    println!("property={} kind={} class={}", v["property"], v["kind"], v["class"]);
    println!("detail: {}", v["detail"].as_str().unwrap_or(""));
    let mut opts = Opts::from_json(&v["opts"]);
    opts.xdg = scratch_xdg("replay");
    clear_user_files(&opts);
    if let Some(files) = v["files"].as_object() {
        for (name, content) in files {
            let p = opts.user_dir().join(name);
            std::fs::write(&p, content.as_str().unwrap_or("")).map_err(|e| e.to_string())?;
            println!("file {} = {}", name, content);
        }
    }
    println!("opts: {} layout={} db={}", opts.flags(), opts.layout, opts.db);
    let mut ctx = match Ctx::new(&opts) {
        Ok(c) => c,
        Err(p) => {
            println!("new_with_config PANIC: {} ({}:{})", p.msg, p.file, p.line);
            return Ok(());
        }
    };
    if let Some(o) = v.get("origin").filter(|o| o.is_object()) {
        ctx.set_fixed(o["buffer"].as_str().unwrap_or(""), o["typed"].as_str().unwrap_or(""), o["pending_kar"].as_u64().unwrap_or(0) as u8);
        println!("origin state set through the restore hook: {}", o);
    }
    for e in v["events"].as_array().cloned().unwrap_or_default() {
        let mut ev = Ev::from_json(&e).ok_or("bad event")?;
        if let Ev::Update(o) = &mut ev {
            o.xdg = opts.xdg.clone();
        }
        match ctx.apply(&ev) {
            Ok(Out::Sugg(r)) => println!("{:<14} -> {}   ongoing={}", ev.short(), r.to_json(), ctx.ongoing()),
            Ok(Out::Unit) => println!("{:<14} -> ()   ongoing={}", ev.short(), ctx.ongoing()),
            Err(f) => {
                println!("{:<14} -> FAIL {:?}", ev.short(), f);
                break;
            }
        }
        println!("               state {}", ctx.snapshot(1));
    }
    crate::drv::cleanup_scratch();
    Ok(())
}

/// Re-execute the history of a violation record in a fresh scratch directory and return what was observed
/// (one line per event). Used by `Report::finish` to replay every new violation twice before it is reported.
pub fn observe(v: &Value, tag: &str) -> Vec<String> {
    let mut out = vec![];
    let mut opts = Opts::from_json(&v["opts"]);
    opts.xdg = scratch_xdg(tag);
    clear_user_files(&opts);
    if let Some(files) = v["files"].as_object() {
        for (name, content) in files {
            let _ = std::fs::write(opts.user_dir().join(name), content.as_str().unwrap_or(""));
        }
    }
    let mut ctx = match Ctx::new(&opts) {
        Ok(c) => c,
        Err(p) => {
            out.push(format!("new_with_config PANIC: {}", p.short()));
            return out;
        }
    };
    if let Some(o) = v.get("origin").filter(|o| o.is_object()) {
        ctx.set_fixed(o["buffer"].as_str().unwrap_or(""), o["typed"].as_str().unwrap_or(""), o["pending_kar"].as_u64().unwrap_or(0) as u8);
    }
    for e in v["events"].as_array().cloned().unwrap_or_default() {
        let Some(mut ev) = Ev::from_json(&e) else {
            out.push("bad event".into());
            break;
        };
        if let Ev::Update(o) = &mut ev {
            o.xdg = opts.xdg.clone();
        }
        match ctx.apply(&ev) {
            Ok(Out::Sugg(r)) => out.push(format!("{} -> {} ongoing={}", ev.short(), r.to_json(), ctx.ongoing())),
            Ok(Out::Unit) => out.push(format!("{} -> () ongoing={}", ev.short(), ctx.ongoing())),
            Err(crate::drv::Fail::Slow(_)) => out.push(format!("{} -> slow", ev.short())),
            Err(f) => {
                out.push(format!("{} -> FAIL {:?}", ev.short(), f));
                break;
            }
        }
    }
    out
}
