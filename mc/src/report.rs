//! Violations, known findings, replay files and evidence.

use crate::drv::{Ev, Opts};
use regex::Regex;
use serde_json::{json, Map, Value};
use std::collections::BTreeMap;
use std::sync::Mutex;
use std::time::Instant;

/// One failing case found by an oracle.
#[derive(Clone, Debug)]
pub struct Violation {
    pub property: String,
    /// oracle that fired, e.g. "panic", "index-out-of-range", "ref-step-mismatch"
    pub kind: String,
    /// coarse class used to group instances of the same defect in the report
    pub class: String,
    /// features of the failing input that known-finding predicates match on
    pub features: BTreeMap<String, String>,
    pub opts: Option<Opts>,
    /// user files to create before replaying (relative name -> content)
    pub files: BTreeMap<String, String>,
    pub events: Vec<Ev>,
    pub detail: String,
    /// fixed method: state (composition, raw keys, waiting sign) set through the restore hook before `events`
    pub origin: Option<(String, String, u8)>,
}

impl Violation {
    pub fn new(property: &str, kind: &str, class: &str) -> Violation {
        Violation {
            property: property.into(),
            kind: kind.into(),
            class: class.into(),
            features: BTreeMap::new(),
            opts: None,
            files: BTreeMap::new(),
            events: vec![],
            detail: String::new(),
            origin: None,
        }
    }
    pub fn origin(mut self, buffer: &str, typed: &str, pending: u8) -> Self {
        self.features.insert("synthetic_state".into(), "true".into());
        self.origin = Some((buffer.into(), typed.into(), pending));
        self
    }
    pub fn feat(mut self, k: &str, v: impl Into<String>) -> Self {
        self.features.insert(k.into(), v.into());
        self
    }
    pub fn opts(mut self, o: &Opts) -> Self {
        self.features.insert("flags".into(), o.flags());
        self.features.insert(
            "method".into(),
            if o.is_phonetic() { "phonetic".into() } else { "fixed".into() },
        );
        self.opts = Some(o.clone());
        self
    }
    pub fn events(mut self, e: &[Ev]) -> Self {
        self.events = e.to_vec();
        self.features.insert("history".into(), crate::drv::hist_short(e));
        self
    }
    pub fn file(mut self, name: &str, content: &str) -> Self {
        self.files.insert(name.into(), content.into());
        self
    }
    pub fn detail(mut self, d: impl Into<String>) -> Self {
        self.detail = d.into();
        self
    }
    pub fn to_json(&self) -> Value {
        json!({
            "property": self.property,
            "kind": self.kind,
            "class": self.class,
            "features": self.features,
            "opts": self.opts.as_ref().map(|o| o.to_json()),
            "files": self.files,
            "events": self.events.iter().map(|e| e.to_json()).collect::<Vec<_>>(),
            "history": crate::drv::hist_short(&self.events),
            "detail": self.detail,
            "origin": self.origin.as_ref().map(|(b, t, p)| json!({"buffer": b, "typed": t, "pending_kar": p})),
        })
    }
}

/// An entry of /verif/KNOWN_FINDINGS.json with status "open".
pub struct Known {
    pub id: String,
    pub property: String,
    pub kind: Regex,
    pub matchers: Vec<(String, Regex)>,
    pub what: String,
}

pub fn load_known() -> Vec<Known> {
    let path = format!("{}/KNOWN_FINDINGS.json", crate::drv::verif_root());
    let Ok(text) = std::fs::read_to_string(&path) else { return vec![] };
    let v: Value = serde_json::from_str(&text).expect("KNOWN_FINDINGS.json parses");
    let mut out = vec![];
    for e in v["findings"].as_array().cloned().unwrap_or_default() {
        if e["status"].as_str() != Some("open") {
            continue; // "fixed" entries are documentation only and suppress nothing
        }
        let props: Vec<String> = match &e["properties"] {
            Value::Array(a) => a.iter().filter_map(|x| x.as_str().map(String::from)).collect(),
            _ => vec![],
        };
        for p in props {
            let mut matchers = vec![];
            if let Some(m) = e["match"].as_object() {
                for (k, pat) in m {
                    if k == "kind" {
                        continue;
                    }
                    matchers.push((k.clone(), Regex::new(pat.as_str().unwrap()).unwrap()));
                }
            }
            out.push(Known {
                id: e["id"].as_str().unwrap_or("?").to_string(),
                property: p,
                kind: Regex::new(e["match"]["kind"].as_str().unwrap_or(".*")).unwrap(),
                matchers,
                what: e["what"].as_str().unwrap_or("").to_string(),
            });
        }
    }
    out
}

impl Known {
    pub fn matches(&self, v: &Violation) -> bool {
        if self.property != v.property || !self.kind.is_match(&v.kind) {
            return false;
        }
        self.matchers.iter().all(|(k, re)| {
            v.features.get(k).map(|val| re.is_match(val)).unwrap_or(false)
        })
    }
}

struct Group {
    first: Violation,
    count: u64,
}

/// Collects violations from all workers, separates known findings, writes replay files.
pub struct Report {
    pub property: String,
    pub tier: String,
    known: Vec<Known>,
    new: Mutex<BTreeMap<String, Group>>,
    known_hits: Mutex<BTreeMap<String, (u64, String)>>,
    pub start: Instant,
    /// set by `finish` when a recorded history does not replay identically twice (machinery error, exit 2)
    pub nondeterministic: std::sync::atomic::AtomicBool,
}

impl Report {
    pub fn new(property: &str, tier: &str) -> Report {
        // stale replay files of earlier runs of this property and tier are removed
        let dir = format!("{}/replays/{}", crate::drv::verif_root(), property);
        if let Ok(rd) = std::fs::read_dir(&dir) {
            for e in rd.flatten() {
                if e.file_name().to_string_lossy().starts_with(&format!("{}-", tier)) {
                    let _ = std::fs::remove_file(e.path());
                }
            }
        }
        Report {
            property: property.into(),
            tier: tier.into(),
            known: load_known(),
            new: Mutex::new(BTreeMap::new()),
            known_hits: Mutex::new(BTreeMap::new()),
            start: Instant::now(),
            nondeterministic: std::sync::atomic::AtomicBool::new(false),
        }
    }

    /// Record a violation (thread-safe). Returns true when it is *not* a known finding.
    pub fn add(&self, v: Violation) -> bool {
        for k in &self.known {
            if k.matches(&v) {
                let mut h = self.known_hits.lock().unwrap();
                let e = h.entry(k.id.clone()).or_insert((0, k.what.clone()));
                e.0 += 1;
                return false;
            }
        }
        let key = format!("{}|{}|{}", v.property, v.kind, v.class);
        let mut g = self.new.lock().unwrap();
        match g.get_mut(&key) {
            Some(gr) => {
                gr.count += 1;
                // keep the shortest history as the representative
                if v.events.len() < gr.first.events.len() {
                    gr.first = v;
                }
            }
            None => {
                g.insert(key, Group { first: v, count: 1 });
            }
        }
        true
    }

    pub fn new_count(&self) -> u64 {
        self.new.lock().unwrap().values().map(|g| g.count).sum()
    }
    pub fn new_classes(&self) -> usize {
        self.new.lock().unwrap().len()
    }
    pub fn known_count(&self) -> u64 {
        self.known_hits.lock().unwrap().values().map(|g| g.0).sum()
    }

    /// Print KNOWN-FINDING / VIOLATION lines, write replay files; returns number of new classes.
    /// "slow" is measured as thread CPU time of one call. A pause of the whole machine (sandbox snapshot) has been seen to
    /// charge minutes to every running thread at once, so a slow call only counts when the same history is slow again in
    /// a new context - unbounded time is a property of the input, not of the moment. Called before the evidence is written.
    pub fn confirm_slow(&self) {
        let mut g = self.new.lock().unwrap();
        let keys: Vec<String> = g.iter().filter(|(_, gr)| gr.first.kind == "slow" && gr.first.opts.is_some()).map(|(k, _)| k.clone()).collect();
        for k in keys {
            let first = g[&k].first.clone();
            let again = crate::replay::observe(&first.to_json(), "confirm-slow");
            if !again.last().map(|l| l.ends_with("-> slow")).unwrap_or(false) {
                eprintln!("note: a call measured as slow ({}; history [{}]) was not slow when replayed; dropped as transient", first.detail, crate::drv::hist_short(&first.events));
                g.remove(&k);
            }
        }
    }

    pub fn finish(&self) -> usize {
        for (id, (n, what)) in self.known_hits.lock().unwrap().iter() {
            println!(
                "KNOWN-FINDING: property={} {} [{}; {} instance(s) in this run]",
                self.property, what, id, n
            );
        }
        let g = self.new.lock().unwrap();
        let dir = format!("{}/replays/{}", crate::drv::verif_root(), self.property);
        if !g.is_empty() {
            std::fs::create_dir_all(&dir).expect("create replay dir");
        }
        for (i, (key, gr)) in g.iter().enumerate() {
            let mut h: u64 = 0xcbf29ce484222325;
            for b in key.bytes() {
                h = (h ^ b as u64).wrapping_mul(0x100000001b3);
            }
            let path = format!("{}/{}-{:016x}.json", dir, self.tier, h);
            let mut j = gr.first.to_json();
            j["instances_in_run"] = json!(gr.count);
            // Replay the recorded history twice in new contexts before the failure is trusted: the observations must be
            // identical, otherwise some nondeterminism is not owned by the harness and nothing it says can be believed.
            let skip = ["hang", "abort", "slow"].iter().any(|k| gr.first.kind.contains(k)) || gr.first.opts.is_none() || gr.first.events.is_empty();
            if !skip {
                let a = crate::replay::observe(&j, "confirm-a");
                let b = crate::replay::observe(&j, "confirm-b");
                if a != b {
                    let k = a.iter().zip(b.iter()).position(|(x, y)| x != y).unwrap_or(a.len().min(b.len()));
                    eprintln!("MACHINERY ERROR: replaying the history of class {} twice gives different observations at event {}: {:?} vs {:?}", gr.first.class, k, a.get(k), b.get(k));
                    self.nondeterministic.store(true, std::sync::atomic::Ordering::SeqCst);
                }
                j["replayed_twice_identical"] = json!(a == b);
                j["observations_on_replay"] = json!(a);
            }
            std::fs::write(&path, serde_json::to_string_pretty(&j).unwrap()).expect("write replay");
            // a violation that belongs to another property's monitor is reported under that id
            println!("VIOLATION property={} replay={}", gr.first.property, path);
            if i < 40 {
                println!(
                    "  kind={} class={} instances={} history=[{}] {}",
                    gr.first.kind,
                    gr.first.class,
                    gr.count,
                    crate::drv::hist_short(&gr.first.events),
                    gr.first.detail
                );
            }
        }
        g.len()
    }
}

/// Evidence file content builder.
pub struct Evidence {
    pub property: String,
    pub tier: String,
    pub level: String,
    pub coverage: Map<String, Value>,
    pub assumptions: Vec<String>,
}

impl Evidence {
    pub fn new(property: &str, tier: &str, level: &str) -> Evidence {
        Evidence {
            property: property.into(),
            tier: tier.into(),
            level: level.into(),
            coverage: Map::new(),
            assumptions: vec![],
        }
    }
    pub fn set(&mut self, k: &str, v: impl Into<Value>) {
        self.coverage.insert(k.into(), v.into());
    }
    pub fn assume(&mut self, s: &str) {
        self.assumptions.push(s.into());
    }
    pub fn write(&self, report: &Report) {
        let seed: i64 = std::env::var("VERIF_SEED").ok().and_then(|s| s.parse().ok()).unwrap_or(0);
        let mut cov = self.coverage.clone();
        cov.insert("known_finding_instances".into(), json!(report.known_count()));
        cov.insert("new_violation_classes".into(), json!(report.new_classes()));
        let j = json!({
            "property_id": self.property,
            "tier": self.tier,
            "seed": seed,
            "level": self.level,
            "coverage": cov,
            "assumptions": self.assumptions,
            "wall_s": report.start.elapsed().as_secs_f64(),
            "violations": report.new_count(),
        });
        let dir = format!("{}/evidence", crate::drv::verif_root());
        std::fs::create_dir_all(&dir).expect("evidence dir");
        let path = format!("{}/{}.json", dir, self.property);
        std::fs::write(&path, serde_json::to_string_pretty(&j).unwrap() + "\n")
            .expect("write evidence");
    }
}

/// Keep at most `cap` sample values (thread-safe).
pub struct Samples {
    cap: usize,
    items: Mutex<Vec<Value>>,
}
impl Samples {
    pub fn new(cap: usize) -> Samples {
        Samples { cap, items: Mutex::new(vec![]) }
    }
    pub fn offer(&self, f: impl FnOnce() -> Value) {
        let mut g = self.items.lock().unwrap();
        if g.len() < self.cap {
            g.push(f());
        }
    }
    pub fn take(&self) -> Vec<Value> {
        self.items.lock().unwrap().clone()
    }
}
